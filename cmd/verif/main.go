package main

import (
	"encoding/json"
	"fmt"
	"os"
	"path/filepath"
	"strconv"
	"strings"

	"verif/internal/convsim"
	"verif/internal/gensim"
	"verif/internal/pipeline"
	"verif/internal/simbuild"
	"verif/spec"
)

func die(code int, f string, a ...interface{}) {
	fmt.Fprintf(os.Stderr, f+"\n", a...)
	os.Exit(code)
}

func main() {
	if len(os.Args) < 2 {
		die(2, "usage: verif <gogo|gen|check|replay|selftest> ...")
	}
	switch os.Args[1] {
	case "gogo":
		pipeline.GogoMain()
	case "gen":
		cmdGen(os.Args[2:])
	case "check":
		cmdCheck(os.Args[2:])
	case "replay":
		cmdReplay(os.Args[2:])
	case "selftest":
		cmdSelftest(os.Args[2:])
	case "simbuild":
		dir := os.Args[2]
		os.MkdirAll(dir, 0o755)
		ins, err := simbuild.Build(dir, len(os.Args) > 3)
		if err != nil {
			die(2, "%v", err)
		}
		b, _ := json.MarshalIndent(ins.Reports, "", " ")
		fmt.Println(string(b))
	default:
		die(2, "unknown subcommand %s", os.Args[1])
	}
}

// cmdGen: debug helper — generate the corpus into a directory.
func cmdGen(args []string) {
	if len(args) < 1 {
		die(2, "usage: verif gen <dir> [random-seed]")
	}
	dir := args[0]
	if err := os.MkdirAll(dir, 0o755); err != nil {
		die(2, "%v", err)
	}
	self, _ := os.Executable()
	bin := filepath.Join(dir, "plugin.bin")
	if err := pipeline.BuildPlugin(bin, ""); err != nil {
		die(2, "%v", err)
	}
	p := spec.Corpus()
	if len(args) > 1 {
		n, _ := strconv.ParseUint(args[1], 10, 64)
		p = spec.RandomProgram(n, spec.RandomOpts{Conv: true})
		pj, _ := json.MarshalIndent(p, "", " ")
		os.WriteFile(filepath.Join(dir, "program.json"), pj, 0o644)
	}
	if err := p.Validate(); err != nil {
		die(2, "program: %v", err)
	}
	g, err := pipeline.Generate(bin, self, p, dir)
	if err != nil {
		die(2, "%v", err)
	}
	os.WriteFile(filepath.Join(dir, "p_terraform.go"), g.Terraform, 0o644)
	os.WriteFile(filepath.Join(dir, "p.pb.go"), g.PB, 0o644)
	os.WriteFile(filepath.Join(dir, "casts.go"), g.Casts, 0o644)
	os.WriteFile(filepath.Join(dir, "plugin.stderr"), g.Stderr, 0o644)
	fmt.Println("ok", len(g.Terraform), len(g.PB))
}

var verifRoot = func() string {
	if v := os.Getenv("VERIF_ROOT"); v != "" {
		return v
	}
	return "/verif"
}()

// outRoot is where evidence and replay files are written (differs from verifRoot only in self-tests).
var outRoot = func() string {
	if v := os.Getenv("VERIF_EVIDENCE_ROOT"); v != "" {
		return v
	}
	return verifRoot
}()

func seedFromEnv(def uint64) uint64 {
	if v := os.Getenv("VERIF_SEED"); v != "" {
		if n, err := strconv.ParseUint(v, 10, 64); err == nil {
			return n
		}
		if n, err := strconv.ParseInt(v, 10, 64); err == nil {
			return uint64(n)
		}
	}
	return def
}

func exitFor(err error) {
	// build trouble, watchdog, harness invariant: exit 2, never a VIOLATION line
	fmt.Fprintf(os.Stderr, "verif: cannot decide: %v\n", err)
	os.Exit(2)
}

func cmdCheck(args []string) {
	if len(args) < 2 {
		die(2, "usage: verif check <id> <quick|thorough>")
	}
	id, tier := args[0], args[1]
	if t := os.Getenv("VERIF_TIER"); t == "quick" || t == "thorough" {
		tier = t
	}
	seed := seedFromEnv(20261002)
	fmt.Printf("VERIF_SEED=%d property=%s tier=%s\n", seed, id, tier)
	// replay files of earlier runs of this property do not survive a new run: what is in evidence/replay
	// afterwards was written by this run
	evRoot := outRoot
	if v := os.Getenv("VERIF_EVIDENCE_ROOT"); v != "" {
		evRoot = v
	}
	if old, _ := filepath.Glob(filepath.Join(evRoot, "evidence", "replay", id+"-*.json")); len(old) > 0 {
		for _, f := range old {
			os.Remove(f)
		}
	}
	switch id {
	case "C14", "C16", "C18":
		res, err := gensim.Check(outRoot, id, tier, seed)
		if err != nil {
			exitFor(err)
		}
		if err := gensim.WriteEvidence(outRoot, res.Evidence); err != nil {
			exitFor(err)
		}
		fmt.Printf("cases=%v distinct=%v child_runs=%v wall=%.1fs violations=%d\n", res.Evidence.Coverage["evaluations"],
			res.Evidence.Coverage["distinct_nontrivial"], res.Evidence.Coverage["child_process_runs"], res.Evidence.WallS, res.Evidence.Violations)
		if len(res.Violations) > 0 {
			for i, v := range res.Violations {
				fmt.Printf("violation clause=%s: %s\n", v.Clause, strings.Join(v.Failures, "; "))
				fmt.Printf("VIOLATION property=%s replay=%s\n", id, res.Replays[i])
			}
			os.Exit(1)
		}
		fmt.Printf("OK property=%s held on everything explored\n", id)
	case "C05", "C06", "C07", "C08", "C09":
		self, _ := os.Executable()
		res, err := convsim.Check(verifRoot, self, id, tier, seed)
		if err != nil {
			exitFor(err)
		}
		level := "exploration"
		if id == "C06" {
			level = "fault_enumeration"
		}
		res.Evidence["rule"] = convRule[id]
		ev := &gensim.Evidence{PropertyID: id, Tier: tier, Seed: int64(seed), Level: level, Coverage: res.Evidence,
			Assumptions: convAssumptions, WallS: res.Wall, Violations: res.NViol}
		if err := gensim.WriteEvidence(outRoot, ev); err != nil {
			exitFor(err)
		}
		fmt.Printf("histories=%v classes=%v wall=%.1fs violations=%d\n", res.Evidence["evaluations"], res.Evidence["distinct_nontrivial"], res.Wall, res.NViol)
		for _, l := range res.KnownLines {
			fmt.Println(l)
		}
		if len(res.Violations) > 0 {
			for i, v := range res.Violations {
				fmt.Printf("violation root=%s signature=%s\n%s\n", v.Root, v.Signature, v.Detail)
				fmt.Printf("VIOLATION property=%s replay=%s\n", id, res.Paths[i])
			}
			os.Exit(1)
		}
		fmt.Printf("OK property=%s held on everything explored\n", id)
	default:
		die(2, "no check for %s", id)
	}
}

var convAssumptions = []string{
	"the shape-spec generator and the reference model are independent of /repo but written by the same hand as the checks",
	"gogo's generator defines the struct types; the framework's ValueFromTerraform/ToTerraformValue and the msgpack codec define what the framework would decode",
	"custom-type fields are excluded (user hooks); time/duration use harness-supplied lossless attribute types",
	"programs: the curated corpus (DESIGN.md Appendix B); collections <= 3 entries, depth as in D",
}

var convRule = map[string]string{
	"C05": "rapid-drawn histories on one long-lived struct per root type: Scribble (arbitrary prior contents) and Read(X) with X = restart of a written object | framework decode of a state-like value | framework decode of a value with null/unknown anywhere; oracles: reference decode (normal form), reused == fresh target, excluded fields bit-identical, twin carrying payload under every null/unknown gives the same result. distinct = distinct (root, op-kind sequence) classes; every history has >= 1 op",
	"C06": "fault configuration of the same simulator: per drawn healthy object (written in place | restarted | framework-decoded) either every single fault at every site (delete attribute, wrong-typed value, nil interface, nil Attrs, nil Elems, at any depth) or a seeded set of 2-5 independent faults; for CopyTo every single attribute-type removal reached by the drawn source, or a seeded set. distinct = distinct (root, healthy kind, number of enumerated sites | fault-kind multiset | removed type paths) classes",
	"C07": "histories on one long-lived struct with every oneof holder preset by Preset ops; Read of values with at most one known non-null branch per group (exact holder oracle, no normal form) or several (no-panic only); WriteEmpty: CopyTo of any active branch / none into the empty object (inactive null, active non-null if payload non-zero). distinct = distinct (root, op-kind sequence) classes",
	"C08": "plan/echo cycles on one object: plan = framework decode (alternately through the msgpack durable form) of a value with any mix of null/unknown/known, at most one non-null branch per oneof, no null elements, numbers in range; fresh struct <- plan; struct -> same plan object; path-wise oracle on tftypes.Value; next plan derived from the previous result. distinct = distinct (root, sequence of top-level null/unknown/known patterns of the plans) classes",
	"C09": "sequences of in-place CopyTo on one long-lived object starting from the empty schema-typed object: Write(fresh or mutated source biased to grow/shrink/empty/nil transitions) and Repeat; after each write the attribute-wise oracle of C09 against the source and the pre-write state. distinct = distinct (root, op-kind sequence) classes",
}

func cmdReplay(args []string) {
	if len(args) != 1 {
		die(2, "usage: verif replay <file>")
	}
	b, err := os.ReadFile(args[0])
	if err != nil {
		die(2, "%v", err)
	}
	var head struct {
		Property string `json:"property"`
		Engine   string `json:"engine"`
	}
	json.Unmarshal(b, &head)
	switch head.Property {
	case "C05", "C06", "C07", "C08", "C09":
		self, _ := os.Executable()
		sig, detail, err := convsim.ReplayFile(verifRoot, self, args[0])
		if err != nil {
			exitFor(err)
		}
		if sig != "" {
			fmt.Printf("replayed signature=%s\n%s\n", sig, detail)
			fmt.Printf("VIOLATION property=%s replay=%s\n", head.Property, args[0])
			os.Exit(1)
		}
		fmt.Printf("replay of %s: no violation on the current tree\n", args[0])
	case "C14", "C16", "C18":
		c, fails, err := gensim.Replay(args[0])
		if err != nil {
			exitFor(err)
		}
		if len(fails) > 0 {
			fmt.Printf("replayed clause=%s: %s\n", c.Clause, strings.Join(fails, "; "))
			fmt.Printf("VIOLATION property=%s replay=%s\n", head.Property, args[0])
			os.Exit(1)
		}
		fmt.Printf("replay of %s: no violation on the current tree\n", args[0])
	default:
		die(2, "unknown replay property %q", head.Property)
	}
}

// cmdSelftest: determinism of both simulators (sensitivity lives in selftest.sh).
func cmdSelftest(args []string) {
	n := 30
	self, _ := os.Executable()
	rep := map[string]interface{}{}
	g, ok1, err := gensim.Determinism(n)
	if err != nil {
		exitFor(err)
	}
	rep["gensim"] = g
	c, ok2, err := convsim.Determinism(verifRoot, self, []string{"C05", "C06", "C08", "C09"}, n)
	if err != nil {
		exitFor(err)
	}
	rep["convsim"] = c
	rep["processes_per_point"] = n
	rep["gomaxprocs"] = []int{1, 4, 16}
	b, _ := json.MarshalIndent(rep, "", " ")
	os.MkdirAll(filepath.Join(outRoot, "evidence"), 0o755)
	os.WriteFile(filepath.Join(outRoot, "evidence", "selftest-determinism.json"), b, 0o644)
	fmt.Println(string(b))
	if !ok1 || !ok2 {
		fmt.Println("DETERMINISM SELF-TEST FAILED: the simulator is not a pure function of its seed")
		os.Exit(2)
	}
	fmt.Println("determinism self-test ok")
}
