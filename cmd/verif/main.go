package main

import (
	"encoding/json"
	"fmt"
	"os"
	"path/filepath"
	"strconv"
	"strings"

	"verif/internal/gensim"
	"verif/internal/pipeline"
	"verif/internal/simbuild"
	"verif/spec"
)

func die(code int, f string, a ...interface{}) {
	fmt.Fprintf(os.Stderr, f+"\n", a...)
	os.Exit(code)
}

func main() {
	if len(os.Args) < 2 {
		die(2, "usage: verif <gogo|gen|check|replay|selftest> ...")
	}
	switch os.Args[1] {
	case "gogo":
		pipeline.GogoMain()
	case "gen":
		cmdGen(os.Args[2:])
	case "check":
		cmdCheck(os.Args[2:])
	case "replay":
		cmdReplay(os.Args[2:])
	case "simbuild":
		dir := os.Args[2]
		os.MkdirAll(dir, 0o755)
		ins, err := simbuild.Build(dir)
		if err != nil {
			die(2, "%v", err)
		}
		b, _ := json.MarshalIndent(ins.Reports, "", " ")
		fmt.Println(string(b))
	default:
		die(2, "unknown subcommand %s", os.Args[1])
	}
}

// cmdGen: debug helper — generate the corpus into a directory.
func cmdGen(args []string) {
	if len(args) != 1 {
		die(2, "usage: verif gen <dir>")
	}
	dir := args[0]
	if err := os.MkdirAll(dir, 0o755); err != nil {
		die(2, "%v", err)
	}
	self, _ := os.Executable()
	bin := filepath.Join(dir, "plugin.bin")
	if err := pipeline.BuildPlugin(bin, ""); err != nil {
		die(2, "%v", err)
	}
	p := spec.Corpus()
	if err := p.Validate(); err != nil {
		die(2, "corpus: %v", err)
	}
	g, err := pipeline.Generate(bin, self, p, dir)
	if err != nil {
		die(2, "%v", err)
	}
	os.WriteFile(filepath.Join(dir, "p_terraform.go"), g.Terraform, 0o644)
	os.WriteFile(filepath.Join(dir, "p.pb.go"), g.PB, 0o644)
	os.WriteFile(filepath.Join(dir, "casts.go"), g.Casts, 0o644)
	os.WriteFile(filepath.Join(dir, "plugin.stderr"), g.Stderr, 0o644)
	fmt.Println("ok", len(g.Terraform), len(g.PB))
}

var verifRoot = func() string {
	if v := os.Getenv("VERIF_ROOT"); v != "" {
		return v
	}
	return "/verif"
}()

func seedFromEnv(def uint64) uint64 {
	if v := os.Getenv("VERIF_SEED"); v != "" {
		if n, err := strconv.ParseUint(v, 10, 64); err == nil {
			return n
		}
		if n, err := strconv.ParseInt(v, 10, 64); err == nil {
			return uint64(n)
		}
	}
	return def
}

func exitFor(err error) {
	// build trouble, watchdog, harness invariant: exit 2, never a VIOLATION line
	fmt.Fprintf(os.Stderr, "verif: cannot decide: %v\n", err)
	os.Exit(2)
}

func cmdCheck(args []string) {
	if len(args) < 2 {
		die(2, "usage: verif check <id> <quick|thorough>")
	}
	id, tier := args[0], args[1]
	if t := os.Getenv("VERIF_TIER"); t == "quick" || t == "thorough" {
		tier = t
	}
	seed := seedFromEnv(20261002)
	fmt.Printf("VERIF_SEED=%d property=%s tier=%s\n", seed, id, tier)
	switch id {
	case "C14", "C16", "C18":
		res, err := gensim.Check(verifRoot, id, tier, seed)
		if err != nil {
			exitFor(err)
		}
		if err := gensim.WriteEvidence(verifRoot, res.Evidence); err != nil {
			exitFor(err)
		}
		fmt.Printf("cases=%v distinct=%v child_runs=%v wall=%.1fs violations=%d\n", res.Evidence.Coverage["evaluations"],
			res.Evidence.Coverage["distinct_nontrivial"], res.Evidence.Coverage["child_process_runs"], res.Evidence.WallS, res.Evidence.Violations)
		if len(res.Violations) > 0 {
			for i, v := range res.Violations {
				fmt.Printf("violation clause=%s: %s\n", v.Clause, strings.Join(v.Failures, "; "))
				fmt.Printf("VIOLATION property=%s replay=%s\n", id, res.Replays[i])
			}
			os.Exit(1)
		}
		fmt.Printf("OK property=%s held on everything explored\n", id)
	default:
		die(2, "no check for %s", id)
	}
}

func cmdReplay(args []string) {
	if len(args) != 1 {
		die(2, "usage: verif replay <file>")
	}
	b, err := os.ReadFile(args[0])
	if err != nil {
		die(2, "%v", err)
	}
	var head struct {
		Property string `json:"property"`
		Engine   string `json:"engine"`
	}
	json.Unmarshal(b, &head)
	switch head.Property {
	case "C14", "C16", "C18":
		c, fails, err := gensim.Replay(args[0])
		if err != nil {
			exitFor(err)
		}
		if len(fails) > 0 {
			fmt.Printf("replayed clause=%s: %s\n", c.Clause, strings.Join(fails, "; "))
			fmt.Printf("VIOLATION property=%s replay=%s\n", head.Property, args[0])
			os.Exit(1)
		}
		fmt.Printf("replay of %s: no violation on the current tree\n", args[0])
	default:
		die(2, "unknown replay property %q", head.Property)
	}
}
