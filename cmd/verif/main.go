package main

import (
	"fmt"
	"os"
	"path/filepath"

	"verif/internal/pipeline"
	"verif/spec"
)

func die(code int, f string, a ...interface{}) {
	fmt.Fprintf(os.Stderr, f+"\n", a...)
	os.Exit(code)
}

func main() {
	if len(os.Args) < 2 {
		die(2, "usage: verif <gogo|gen|check|replay|selftest> ...")
	}
	switch os.Args[1] {
	case "gogo":
		pipeline.GogoMain()
	case "gen":
		cmdGen(os.Args[2:])
	default:
		die(2, "unknown subcommand %s", os.Args[1])
	}
}

// cmdGen: debug helper — generate the corpus into a directory.
func cmdGen(args []string) {
	if len(args) != 1 {
		die(2, "usage: verif gen <dir>")
	}
	dir := args[0]
	if err := os.MkdirAll(dir, 0o755); err != nil {
		die(2, "%v", err)
	}
	self, _ := os.Executable()
	bin := filepath.Join(dir, "plugin.bin")
	if err := pipeline.BuildPlugin(bin, ""); err != nil {
		die(2, "%v", err)
	}
	p := spec.Corpus()
	if err := p.Validate(); err != nil {
		die(2, "corpus: %v", err)
	}
	g, err := pipeline.Generate(bin, self, p, dir)
	if err != nil {
		die(2, "%v", err)
	}
	os.WriteFile(filepath.Join(dir, "p_terraform.go"), g.Terraform, 0o644)
	os.WriteFile(filepath.Join(dir, "p.pb.go"), g.PB, 0o644)
	os.WriteFile(filepath.Join(dir, "casts.go"), g.Casts, 0o644)
	os.WriteFile(filepath.Join(dir, "plugin.stderr"), g.Stderr, 0o644)
	fmt.Println("ok", len(g.Terraform), len(g.PB))
}
