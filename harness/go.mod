module scratch

go 1.23

require (
	github.com/dave/jennifer v1.4.1
	github.com/gogo/protobuf v1.3.2
	github.com/gravitational/trace v1.2.1
	github.com/hashicorp/terraform-plugin-framework v0.10.0
	github.com/hashicorp/terraform-plugin-go v0.12.0
	github.com/sirupsen/logrus v1.9.0
	github.com/stoewer/go-strcase v1.2.0
	github.com/stretchr/testify v1.7.2
	golang.org/x/tools v0.1.7
	google.golang.org/protobuf v1.28.0
	gopkg.in/yaml.v3 v3.0.1
)

require (
	github.com/davecgh/go-spew v1.1.1 // indirect
	github.com/fatih/color v1.13.0 // indirect
	github.com/golang/protobuf v1.5.2 // indirect
	github.com/google/go-cmp v0.5.8 // indirect
	github.com/hashicorp/go-hclog v1.2.1 // indirect
	github.com/hashicorp/terraform-plugin-log v0.6.0 // indirect
	github.com/jonboulle/clockwork v0.3.0 // indirect
	github.com/kr/text v0.2.0 // indirect
	github.com/mattn/go-colorable v0.1.12 // indirect
	github.com/mattn/go-isatty v0.0.14 // indirect
	github.com/mitchellh/go-testing-interface v1.14.1 // indirect
	github.com/pmezard/go-difflib v1.0.0 // indirect
	github.com/vmihailenco/msgpack/v4 v4.3.12 // indirect
	github.com/vmihailenco/tagparser v0.1.1 // indirect
	golang.org/x/crypto v0.17.0 // indirect
	golang.org/x/mod v0.5.1 // indirect
	golang.org/x/net v0.17.0 // indirect
	golang.org/x/sys v0.15.0 // indirect
	golang.org/x/term v0.15.0 // indirect
	golang.org/x/xerrors v0.0.0-20200804184101-5ec99f83aff1 // indirect
	google.golang.org/appengine v1.6.7 // indirect
	gopkg.in/check.v1 v1.0.0-20201130134442-10cb98267c6c // indirect
)

require pgregory.net/rapid v1.3.0
