package p

// convsim harness, fault configuration (C06): corruption faults injected into healthy stored
// objects (CopyFrom) and into the attribute types of the target (CopyTo). Single faults are
// enumerated exhaustively on every drawn object; fault sets of 2-5 are drawn with rapid.

import (
	"fmt"
	"reflect"
	"regexp"
	"sort"
	"strings"

	"github.com/hashicorp/terraform-plugin-framework/attr"
	"github.com/hashicorp/terraform-plugin-framework/diag"
	"github.com/hashicorp/terraform-plugin-framework/types"
	"pgregory.net/rapid"

	"scratch/spec"
)

type step struct {
	attr string // object attribute
	idx  int    // list index (when list)
	key  string // map key (when mp)
	list bool
	mp   bool
}

func (s step) String() string {
	switch {
	case s.list:
		return fmt.Sprintf("[%d]", s.idx)
	case s.mp:
		return "[" + s.key + "]"
	}
	return "." + s.attr
}

func pathString(p []step) string {
	var b strings.Builder
	for _, s := range p {
		b.WriteString(s.String())
	}
	return b.String()
}

// fault kinds on stored objects
const (
	fDelete    = "delete-attribute"
	fDeleteAll = "delete-attribute-and-its-type" // gone from Attrs and from the object's own AttrTypes
	fWrongType = "wrong-typed-value"
	fNilIface  = "nil-interface-value"
	fPtrValue  = "pointer-to-own-value-type" // *types.String where types.String is expected: another Go type
	fNilPtr    = "typed-nil-pointer"         // (*types.String)(nil)
	fNilAttrs  = "nil-attrs-container"
	fNilElems  = "nil-elems-container"
	fTypeGone  = "attr-type-removed"
)

type fault struct {
	kind string
	path []step // path of the container (for container kinds) or of the value (for value kinds)
	// oracle side
	expect []expDiag   // diagnostics this fault must produce
	entry  *spec.Entry // top-most entry the fault sits under at each level is derived from path
}

type expDiag struct {
	path       string // documented field path
	suffixOnly bool   // under an embedded message only the last component is checked
	conversion bool
}

// enumerate the fault sites of a healthy object seen through node n.
func objectFaults(n *spec.Node, o types.Object, path []step, injected map[string]bool, out *[]fault) {
	if o.Null || o.Unknown {
		return
	}
	entryDiag := func(e *spec.Entry, conv bool) []expDiag {
		if e == nil || e.Placeholder {
			return nil
		}
		return []expDiag{{path: e.Path, suffixOnly: e.UnderEmbed, conversion: conv}}
	}
	// container fault: nil Attrs -> every proto attribute of this level is missing
	if len(n.Msg.Fields) > 0 {
		var exp []expDiag
		for _, e := range n.Entries {
			exp = append(exp, entryDiag(e, false)...)
		}
		*out = append(*out, fault{kind: fNilAttrs, path: path, expect: exp})
	}
	names := make([]string, 0, len(o.Attrs))
	for k := range o.Attrs {
		names = append(names, k)
	}
	sort.Strings(names)
	for _, name := range names {
		v := o.Attrs[name]
		e := n.ByAttr(name)
		p := append(append([]step{}, path...), step{attr: name})
		if e == nil {
			if injected[name] {
				// attributes the converters never touch: corrupting them must go unnoticed
				*out = append(*out, fault{kind: fDelete, path: p}, fault{kind: fDeleteAll, path: p}, fault{kind: fNilIface, path: p})
			}
			continue
		}
		if e.Placeholder {
			// the placeholder of an empty message is never read
			*out = append(*out, fault{kind: fDelete, path: p}, fault{kind: fDeleteAll, path: p}, fault{kind: fWrongType, path: p})
			continue
		}
		*out = append(*out,
			fault{kind: fDelete, path: p, expect: entryDiag(e, false), entry: e},
			fault{kind: fDeleteAll, path: p, expect: entryDiag(e, false), entry: e},
			fault{kind: fWrongType, path: p, expect: entryDiag(e, true), entry: e},
			fault{kind: fNilIface, path: p, expect: entryDiag(e, true), entry: e},
			fault{kind: fPtrValue, path: p, expect: entryDiag(e, true), entry: e},
			fault{kind: fNilPtr, path: p, expect: entryDiag(e, true), entry: e})
		switch x := v.(type) {
		case types.Object:
			if e.Child != nil {
				objectFaults(e.Child, x, p, nil, out)
			}
		case types.List:
			if x.Null || x.Unknown {
				continue
			}
			*out = append(*out, fault{kind: fNilElems, path: p, entry: e})
			for i, el := range x.Elems {
				ep := append(append([]step{}, p...), step{list: true, idx: i})
				*out = append(*out, fault{kind: fWrongType, path: ep, expect: entryDiag(e, true), entry: e},
					fault{kind: fNilIface, path: ep, expect: entryDiag(e, true), entry: e},
					fault{kind: fPtrValue, path: ep, expect: entryDiag(e, true), entry: e},
					fault{kind: fNilPtr, path: ep, expect: entryDiag(e, true), entry: e})
				if eo, ok := el.(types.Object); ok && e.Child != nil {
					objectFaults(e.Child, eo, ep, nil, out)
				}
			}
		case types.Map:
			if x.Null || x.Unknown {
				continue
			}
			*out = append(*out, fault{kind: fNilElems, path: p, entry: e})
			keys := make([]string, 0, len(x.Elems))
			for k := range x.Elems {
				keys = append(keys, k)
			}
			sort.Strings(keys)
			for _, k := range keys {
				ep := append(append([]step{}, p...), step{mp: true, key: k})
				*out = append(*out, fault{kind: fWrongType, path: ep, expect: entryDiag(e, true), entry: e},
					fault{kind: fNilIface, path: ep, expect: entryDiag(e, true), entry: e},
					fault{kind: fPtrValue, path: ep, expect: entryDiag(e, true), entry: e},
					fault{kind: fNilPtr, path: ep, expect: entryDiag(e, true), entry: e})
				if eo, ok := x.Elems[k].(types.Object); ok && e.Child != nil {
					objectFaults(e.Child, eo, ep, nil, out)
				}
			}
		}
	}
}

func wrongTyped(v attr.Value) attr.Value {
	if _, ok := v.(types.String); ok {
		return types.Bool{Value: true}
	}
	return types.String{Value: "wrong"}
}

// applyFault returns a copy of v with the fault applied at path.
func applyFault(v attr.Value, path []step, kind string) attr.Value {
	if len(path) == 0 {
		switch kind {
		case fNilAttrs:
			o := v.(types.Object)
			o.Attrs = nil
			return o
		case fNilElems:
			switch x := v.(type) {
			case types.List:
				x.Elems = nil
				return x
			case types.Map:
				x.Elems = nil
				return x
			}
		case fWrongType:
			return wrongTyped(v)
		case fNilIface:
			return nil
		case fPtrValue, fNilPtr:
			if v == nil {
				return nil
			}
			pt := reflect.PtrTo(reflect.TypeOf(v))
			pv := reflect.Zero(pt)
			if kind == fPtrValue {
				pv = reflect.New(reflect.TypeOf(v))
				pv.Elem().Set(reflect.ValueOf(v))
			}
			if av, ok := pv.Interface().(attr.Value); ok {
				return av
			}
			return wrongTyped(v)
		}
		panic("harness: applyFault kind " + kind)
	}
	s := path[0]
	switch x := v.(type) {
	case types.Object:
		c := x
		c.Attrs = make(map[string]attr.Value, len(x.Attrs))
		for k, a := range x.Attrs {
			c.Attrs[k] = a
		}
		if len(path) == 1 && (kind == fDelete || kind == fDeleteAll) {
			delete(c.Attrs, s.attr)
			if kind == fDeleteAll {
				// the type maps are shared between values: remove from a copy
				at := make(map[string]attr.Type, len(x.AttrTypes))
				for k, a := range x.AttrTypes {
					if k != s.attr {
						at[k] = a
					}
				}
				c.AttrTypes = at
			}
			return c
		}
		c.Attrs[s.attr] = applyFault(x.Attrs[s.attr], path[1:], kind)
		return c
	case types.List:
		c := x
		c.Elems = append([]attr.Value{}, x.Elems...)
		c.Elems[s.idx] = applyFault(x.Elems[s.idx], path[1:], kind)
		return c
	case types.Map:
		c := x
		c.Elems = make(map[string]attr.Value, len(x.Elems))
		for k, a := range x.Elems {
			c.Elems[k] = a
		}
		c.Elems[s.key] = applyFault(x.Elems[s.key], path[1:], kind)
		return c
	}
	panic(fmt.Sprintf("harness: applyFault through %T", v))
}

func isPrefix(a, b []step) bool {
	if len(a) > len(b) {
		return false
	}
	for i := range a {
		if a[i] != b[i] {
			return false
		}
	}
	return true
}

var pathTokenCache = map[string]*regexp.Regexp{}

var indexRe = regexp.MustCompile(`\[[^\]]*\]`)

func namesPath(detail, path string, suffixOnly bool) bool {
	detail = indexRe.ReplaceAllString(detail, "") // Root.List[0].Sub names Root.List.Sub
	key := path
	if suffixOnly {
		if i := strings.LastIndex(path, "."); i >= 0 {
			key = "~" + path[i:]
		}
	}
	re, ok := pathTokenCache[key]
	if !ok {
		if suffixOnly {
			re = regexp.MustCompile(`[A-Za-z0-9_.]` + regexp.QuoteMeta(key[1:]) + `([^A-Za-z0-9_.]|$)`)
		} else {
			re = regexp.MustCompile(`(^|[^A-Za-z0-9_.])` + regexp.QuoteMeta(path) + `([^A-Za-z0-9_.]|$)`)
		}
		pathTokenCache[key] = re
	}
	return re.MatchString(detail)
}

// checkDiags: every expected diagnostic is present exactly once, and nothing else is reported.
func checkDiags(t *rapid.T, prop, dir string, fs []fault, ds diag.Diagnostics, h *history, what string) {
	var errs []string
	for _, d := range ds {
		if d.Severity() == diag.SeverityError {
			errs = append(errs, d.Summary()+": "+d.Detail())
		}
	}
	// expected set: per documented field path between one diagnostic and one per distinct fault class
	// (identical diagnostics are merged by the framework's Append; a missing and a conversion
	// diagnostic for the same field in two list elements are two diagnostics)
	type want struct {
		e        expDiag
		sites    int
		kind     string
		distinct map[string]bool // (documented path, missing | conversion): each is a diagnostic of its own
	}
	wants := map[string]*want{}
	for _, f := range fs {
		for _, e := range f.expect {
			key := e.path
			if e.suffixOnly {
				// under embedding only the last component is checked: expectations that share it cannot be
				// told apart and are counted together
				if i := strings.LastIndex(e.path, "."); i >= 0 {
					key = "~" + e.path[i:]
				}
			}
			w := wants[key]
			if w == nil {
				w = &want{e: e, kind: f.kind, distinct: map[string]bool{}}
				wants[key] = w
			}
			w.sites++ // faults at different sites of one field may produce distinct diagnostics for it
			w.distinct[fmt.Sprintf("%s|%v", e.path, e.conversion)] = true
		}
	}
	used := make([]bool, len(errs))
	keys := make([]string, 0, len(wants))
	for k := range wants {
		keys = append(keys, k)
	}
	// exact paths claim their diagnostics first, then the suffix-only ones (under embedded messages)
	sort.Slice(keys, func(i, j int) bool {
		a, b := wants[keys[i]], wants[keys[j]]
		if a.e.suffixOnly != b.e.suffixOnly {
			return !a.e.suffixOnly
		}
		return keys[i] < keys[j]
	})
	for _, k := range keys {
		w := wants[k]
		n := 0
		for i, s := range errs {
			if !used[i] && namesPath(s, w.e.path, w.e.suffixOnly) {
				used[i] = true
				n++
			}
		}
		if n < len(w.distinct) || n > w.sites {
			violate(t, prop+"/"+dir+"/one-diagnostic-per-fault/"+w.kind, "%s: expected between %d and %d error diagnostics naming %s (%d fault sites on it, %d distinct kinds of complaint), got %d\nall error diagnostics: %v\nfaults: %s\nhistory: %s",
				what, len(w.distinct), w.sites, w.e.path, w.sites, len(w.distinct), n, errs, describeFaults(fs), strings.Join(h.lines, " ; "))
		}
	}
	for i, s := range errs {
		if !used[i] {
			violate(t, prop+"/"+dir+"/no-spurious-diagnostic", "%s: unexpected error diagnostic %q\nfaults: %s\nhistory: %s", what, s, describeFaults(fs), strings.Join(h.lines, " ; "))
		}
	}
}

func describeFaults(fs []fault) string {
	var ss []string
	for _, f := range fs {
		ss = append(ss, f.kind+"@"+pathString(f.path))
	}
	return strings.Join(ss, ", ")
}

// compareUnfaulted: every field whose attribute subtree carries no fault equals the twin's.
func compareUnfaulted(t *rapid.T, n *spec.Node, got, twin map[string]interface{}, at []step, fs []fault, h *history) {
	// the branches of one oneof group share one field: a fault on any branch taints the group
	groupOf := func(e *spec.Entry) string { return e.F.Oneof + "|" + e.Decl.Name + "|" + viaKey(e.Via) }
	tainted := map[string]bool{}
	for _, e := range n.Entries {
		if e.Placeholder || e.F.Oneof == "" {
			continue
		}
		p := append(append([]step{}, at...), step{attr: e.Attr})
		for _, f := range fs {
			if isPrefix(f.path, p) || isPrefix(p, f.path) {
				tainted[groupOf(e)] = true
			}
		}
	}
	for _, e := range n.Entries {
		if e.Placeholder {
			continue
		}
		if e.F.Oneof != "" && tainted[groupOf(e)] {
			continue
		}
		p := append(append([]step{}, at...), step{attr: e.Attr})
		above, below := false, false
		for _, f := range fs {
			if isPrefix(f.path, p) {
				above = true // the fault sits on this attribute or on a container above it
			} else if isPrefix(p, f.path) {
				below = true
			}
		}
		if above {
			continue // the faulted attribute itself: unspecified
		}
		if !below {
			if d := nfDiff(got[e.Attr], twin[e.Attr], pathString(p)); d != "" {
				violate(t, "C06/copy-from/well-formed-still-copied/"+entryClass(e, false, 0), "field without a fault differs from the unfaulted twin: %s\nfaults: %s\nhistory: %s",
					d, describeFaults(fs), strings.Join(h.lines, " ; "))
			}
			continue
		}
		if e.Child == nil || e.F.Card != "" {
			continue // a collection holding the fault: unspecified
		}
		gs, ok1 := got[e.Attr].(map[string]interface{})
		ts, ok2 := twin[e.Attr].(map[string]interface{})
		if ok1 && ok2 {
			compareUnfaulted(t, e.Child, gs, ts, p, fs, h)
		}
	}
}

// --- CopyTo: attribute types removed at object levels

type typeFault struct {
	path   []step // attribute names from the root type; list/map element levels are implicit
	expect expDiag
}

func cloneType(t attr.Type) attr.Type {
	switch x := t.(type) {
	case types.ObjectType:
		c := types.ObjectType{AttrTypes: make(map[string]attr.Type, len(x.AttrTypes))}
		for k, a := range x.AttrTypes {
			c.AttrTypes[k] = cloneType(a)
		}
		return c
	case types.ListType:
		return types.ListType{ElemType: cloneType(x.ElemType)}
	case types.MapType:
		return types.MapType{ElemType: cloneType(x.ElemType)}
	}
	return t
}

func objLevel(t attr.Type) (types.ObjectType, bool) {
	switch x := t.(type) {
	case types.ObjectType:
		return x, true
	case types.ListType:
		o, ok := x.ElemType.(types.ObjectType)
		return o, ok
	case types.MapType:
		o, ok := x.ElemType.(types.ObjectType)
		return o, ok
	}
	return types.ObjectType{}, false
}

// removeType deletes the attribute type named by path from (a clone of) the type tree.
func removeType(root types.ObjectType, path []step) {
	cur := root
	for i, s := range path {
		if i == len(path)-1 {
			delete(cur.AttrTypes, s.attr)
			return
		}
		next, ok := objLevel(cur.AttrTypes[s.attr])
		if !ok {
			panic("harness: removeType through non-object")
		}
		cur = next
	}
}

// removeTypeInValue deletes the attribute type named by path from the object VALUES stored along the
// path (a stored nested object carries its own AttrTypes, which the converters use when they reuse it).
func removeTypeInValue(o types.Object, path []step) {
	cur := o
	for i, s := range path {
		if i == len(path)-1 {
			delete(cur.AttrTypes, s.attr)
			return
		}
		next, ok := cur.Attrs[s.attr].(types.Object)
		if !ok {
			return // lists and maps: elements are built from the element type
		}
		cur = next
	}
}

// typeFaults enumerates removable attribute types reached by source value src.
func typeFaults(n *spec.Node, src reflect.Value, path []step, out *[]typeFault) {
	for _, e := range n.Entries {
		if e.Placeholder {
			// the synthetic `active` attribute of a field-less message is written (as null) like any other
			p := append(append([]step{}, path...), step{attr: e.Attr})
			*out = append(*out, typeFault{path: p, expect: expDiag{path: e.Path}})
			continue
		}
		p := append(append([]step{}, path...), step{attr: e.Attr})
		*out = append(*out, typeFault{path: p, expect: expDiag{path: e.Path, suffixOnly: e.UnderEmbed}})
		if e.Child == nil {
			continue
		}
		hd := holderOf(src, e.Via, false)
		if !hd.IsValid() {
			continue
		}
		var fv reflect.Value
		if e.F.Oneof != "" {
			hf := hd.FieldByName(spec.CamelCase(e.F.Oneof))
			if hf.IsNil() || hf.Elem().Type() != oneofWrapper(hd, e.Go) {
				continue
			}
			fv = hf.Elem().Elem().Field(0)
		} else {
			fv = hd.FieldByName(e.Go)
		}
		// the nested level is reached only through a value
		switch e.F.Card {
		case spec.CardList:
			for i := 0; i < fv.Len(); i++ {
				if ev := indirect(fv.Index(i)); ev.IsValid() {
					typeFaults(e.Child, addressable(ev), p, out)
				}
			}
		case spec.CardMap:
			it := fv.MapRange()
			for it.Next() {
				if ev := indirect(it.Value()); ev.IsValid() {
					typeFaults(e.Child, addressable(ev), p, out)
				}
			}
		default:
			if ev := indirect(fv); ev.IsValid() {
				typeFaults(e.Child, addressable(ev), p, out)
			}
		}
	}
}

func addressable(v reflect.Value) reflect.Value {
	if v.CanAddr() {
		return v
	}
	c := reflect.New(v.Type()).Elem()
	c.Set(v)
	return c
}

// looseTree renders an attribute value structurally (for twin comparison).
func looseTree(v attr.Value) interface{} {
	switch x := v.(type) {
	case nil:
		return "<nil>"
	case types.Object:
		if x.Unknown {
			return "?"
		}
		if x.Null {
			return "null"
		}
		m := map[string]interface{}{}
		for k, a := range x.Attrs {
			m[k] = looseTree(a)
		}
		return m
	case types.List:
		if x.Unknown {
			return "?"
		}
		if x.Null {
			return "null"
		}
		l := make([]interface{}, len(x.Elems))
		for i, a := range x.Elems {
			l[i] = looseTree(a)
		}
		return l
	case types.Map:
		if x.Unknown {
			return "?"
		}
		if x.Null {
			return "null"
		}
		m := looseMap{}
		for k, a := range x.Elems {
			m[k] = looseTree(a)
		}
		return m
	}
	tv, err := v.ToTerraformValue(ctx)
	if err != nil {
		return "error:" + err.Error()
	}
	return tfString(tv)
}

// looseMap marks map elements (they do not add a level to type paths).
type looseMap map[string]interface{}

// compareWritten: attributes without a removed type equal the twin's.
func compareWritten(t *rapid.T, got, twin interface{}, at string, removed map[string]bool, fs []typeFault, h *history) {
	gm, ok1 := got.(map[string]interface{})
	tm, ok2 := twin.(map[string]interface{})
	if ok1 && ok2 {
		keys := map[string]bool{}
		for k := range gm {
			keys[k] = true
		}
		for k := range tm {
			keys[k] = true
		}
		ks := make([]string, 0, len(keys))
		for k := range keys {
			ks = append(ks, k)
		}
		sort.Strings(ks)
		for _, k := range ks {
			p := at + "." + k
			if removed[p] {
				continue
			}
			compareWritten(t, gm[k], tm[k], p, removed, fs, h)
		}
		return
	}
	gmm, ok1 := got.(looseMap)
	tmm, ok2 := twin.(looseMap)
	if ok1 && ok2 && len(gmm) == len(tmm) {
		ks := make([]string, 0, len(gmm))
		for k := range gmm {
			ks = append(ks, k)
		}
		sort.Strings(ks)
		for _, k := range ks {
			compareWritten(t, gmm[k], tmm[k], at, removed, fs, h)
		}
		return
	}
	gl, ok1 := got.([]interface{})
	tl, ok2 := twin.([]interface{})
	if ok1 && ok2 && len(gl) == len(tl) {
		for i := range gl {
			compareWritten(t, gl[i], tl[i], at, removed, fs, h) // element levels are implicit in type paths
		}
		return
	}
	if !reflect.DeepEqual(got, twin) {
		violate(t, "C06/copy-to/others-still-written", "attribute %s differs from the unfaulted twin: %v vs %v\nremoved types: %v\nhistory: %s",
			at, brief(got), brief(twin), removedList(fs), strings.Join(h.lines, " ; "))
	}
}

func removedList(fs []typeFault) []string {
	var r []string
	for _, f := range fs {
		r = append(r, pathString(f.path))
	}
	return r
}

func typePathKey(p []step) string {
	var b strings.Builder
	for _, s := range p {
		b.WriteString("." + s.attr)
	}
	return b.String()
}

func propC06(re *rootEnv) func(*rapid.T) {
	return func(t *rapid.T) {
		h := &history{root: re.name}
		defer h.finish()
		if rapid.IntRange(0, 2).Draw(t, "dir") != 0 {
			c06From(t, re, h)
		} else {
			c06To(t, re, h)
		}
	}
}

func c06From(t *rapid.T, re *rootEnv, h *history) {
	// a healthy object: any object reachable in a fault-free history
	var X types.Object
	switch rapid.IntRange(0, 2).Draw(t, "healthy") {
	case 0: // in-place written, not restarted
		X = re.emptyObject()
		re.copyTo(t, "C06", genStruct(t, re, "w0"), &X, h)
		if coin(t, 1, 2, "second") {
			re.copyTo(t, "C06", genStruct(t, re, "w1"), &X, h)
		}
		h.add("Healthy", "written in place")
	default:
		var kind string
		X, kind = re.drawSource(t, "C06", "x", h)
		h.add("Healthy", kind)
	}
	twin := re.fn.New()
	var twinErrs []string
	if p := safely(func() { twinErrs = errorDiags(re.fn.From(ctx, X, twin)) }); p != "" || len(twinErrs) > 0 {
		return // the unfaulted read itself misbehaves: C05's business, nothing to compare against
	}
	twinNF := re.nf(twin)
	var sites []fault
	objectFaults(re.view, X, nil, re.injected, &sites)
	run := func(fs []fault, what string) {
		Xf := attr.Value(cloneObject(X))
		for _, f := range fs {
			Xf = applyFault(Xf, f.path, f.kind)
			st.fault(f.kind)
		}
		S := re.fn.New()
		var ds diag.Diagnostics
		if p := safely(func() { ds = re.fn.From(ctx, Xf.(types.Object), S) }); p != "" {
			violate(t, "C06/copy-from/no-panic/"+fs[0].kind, "CopyFrom panicked: %s\nfaults: %s\nhistory: %s", p, describeFaults(fs), strings.Join(h.lines, " ; "))
		}
		checkDiags(t, "C06", "copy-from", fs, ds, h, what)
		compareUnfaulted(t, re.view, re.nf(S), twinNF, nil, fs, h)
	}
	if rapid.IntRange(0, 1).Draw(t, "mode") == 0 {
		h.add("CorruptEach", fmt.Sprintf("%d single faults", len(sites)))
		h.kinds[len(h.kinds)-1] = fmt.Sprintf("CorruptEach:%d", len(sites))
		for _, f := range sites {
			run([]fault{f}, "single fault")
		}
		st.probe("exhaustive-single-fault-objects")
		return
	}
	if len(sites) == 0 {
		return
	}
	k := rapid.IntRange(2, 5).Draw(t, "nfaults")
	var fs []fault
	// sibling pair: the same field missing in one list/map element and wrong-typed in another
	if coin(t, 1, 3, "siblingPair") {
		type pair struct{ a, b int }
		var pairs []pair
		byPath := map[string][]int{}
		for i, f := range sites {
			if len(f.expect) == 1 && f.kind != fNilAttrs {
				byPath[f.expect[0].path] = append(byPath[f.expect[0].path], i)
			}
		}
		paths := make([]string, 0, len(byPath))
		for p := range byPath {
			paths = append(paths, p)
		}
		sort.Strings(paths)
		for _, p := range paths {
			is := byPath[p]
			for _, a := range is {
				for _, b := range is {
					fa, fb := sites[a], sites[b]
					if a < b && fa.expect[0].conversion != fb.expect[0].conversion && !isPrefix(fa.path, fb.path) && !isPrefix(fb.path, fa.path) && len(pairs) < 64 {
						pairs = append(pairs, pair{a, b})
					}
				}
			}
		}
		if len(pairs) > 0 {
			pr := pairs[rapid.IntRange(0, len(pairs)-1).Draw(t, "pair")]
			fs = append(fs, sites[pr.a], sites[pr.b])
			st.probe("missing-and-wrong-typed-sibling-elements")
		}
	}
	for i := 0; i < k; i++ {
		f := sites[rapid.IntRange(0, len(sites)-1).Draw(t, fmt.Sprintf("site%d", i))]
		clash := false
		for _, g := range fs {
			if isPrefix(g.path, f.path) || isPrefix(f.path, g.path) {
				clash = true // faults on one path shadow each other: keep sets independent
			}
		}
		if !clash {
			fs = append(fs, f)
		}
	}
	h.add("CorruptSet", describeFaults(fs))
	var ks []string
	for _, f := range fs {
		ks = append(ks, f.kind)
	}
	h.kinds[len(h.kinds)-1] = "CorruptSet:" + strings.Join(ks, "+")
	run(fs, "fault set")
}

func c06To(t *rapid.T, re *rootEnv, h *history) {
	src := genStruct(t, re, "src")
	h.add("Source", describeStruct(re, src))
	if rapid.IntRange(0, 2).Draw(t, "target") == 0 {
		// "never panics for a non-nil source and target": targets as the framework hands them over — a
		// decoded state-like value, or the durable form of an earlier write (null collections arrive with
		// nil containers there) — with every attribute type present
		var T types.Object
		var err error
		if coin(t, 1, 3, "tplaceholder") {
			// a target written by hand the way fixtures are: every attribute type present, lists and maps
			// held as `types.List{Null: true}` / `types.Map{Null: true}` WITHOUT an element type, scalars as
			// typed nulls, nested objects absent
			T = re.emptyObject()
			names := make([]string, 0, len(T.AttrTypes))
			for k := range T.AttrTypes {
				names = append(names, k)
			}
			sort.Strings(names)
			for _, k := range names {
				switch x := T.AttrTypes[k].(type) {
				case types.ListType:
					T.Attrs[k] = types.List{Null: true}
					// or a stale value of another kind: the null object of the element type (the field was a
					// single message once)
					if eo, ok := x.ElemType.(types.ObjectType); ok && coin(t, 1, 2, "stale/"+k) {
						T.Attrs[k] = types.Object{Null: true, AttrTypes: eo.AttrTypes}
					}
				case types.MapType:
					T.Attrs[k] = types.Map{Null: true}
					if eo, ok := x.ElemType.(types.ObjectType); ok && coin(t, 1, 2, "stale/"+k) {
						T.Attrs[k] = types.Object{Null: true, AttrTypes: eo.AttrTypes}
					}
				}
			}
			h.add("TargetPlaceholders", "lists and maps without element types")
			var ds diag.Diagnostics
			if p := safely(func() { ds = re.fn.To(ctx, src, &T) }); p != "" {
				violate(t, "C06/copy-to/no-panic/placeholder-target", "CopyTo panicked on a target holding list / map placeholders: %s\nhistory: %s", p, strings.Join(h.lines, " ; "))
			}
			if errs := errorDiags(ds); len(errs) > 0 {
				violate(t, "C06/copy-to/no-spurious-diagnostic", "CopyTo onto a target with every attribute type present reported %v\nhistory: %s", errs, strings.Join(h.lines, " ; "))
			}
			st.probe("copy-to-onto-placeholder-target")
			return
		}
		if coin(t, 1, 2, "tkind") {
			T, err = re.decode(genTF(t, re, modeState, "tstate"))
			h.add("TargetDecoded", "")
		} else {
			O := re.emptyObject()
			re.copyTo(t, "C06", genStruct(t, re, "t0"), &O, h)
			T, err = re.restart(O)
			h.add("TargetRestarted", "")
		}
		must(err)
		var ds diag.Diagnostics
		if p := safely(func() { ds = re.fn.To(ctx, src, &T) }); p != "" {
			violate(t, "C06/copy-to/no-panic/decoded-target", "CopyTo panicked on a framework-decoded target: %s\nhistory: %s", p, strings.Join(h.lines, " ; "))
		}
		if errs := errorDiags(ds); len(errs) > 0 {
			violate(t, "C06/copy-to/no-spurious-diagnostic", "CopyTo onto a conforming decoded target reported %v\nhistory: %s", errs, strings.Join(h.lines, " ; "))
		}
		st.probe("copy-to-onto-decoded-target")
		return
	}
	// the target is fresh, or REUSED: a complete target that an earlier CopyTo filled, from which the
	// attribute types are then removed in place (the values written before stay where they are)
	reused := rapid.IntRange(0, 2).Draw(t, "reusedTarget")
	var src0 interface{}
	switch reused {
	case 1:
		src0 = src
		h.add("TargetReused", "first written from the same source")
	case 2:
		src0 = genStruct(t, re, "t0")
		h.add("TargetReused", "first written from "+describeStruct(re, src0))
	}
	// with a reused target, the declared types of the target may also differ from the types the stored
	// values carry themselves: the target gets a fresh copy of the type tree after the first write, and the
	// types are removed from that copy only. What governs the elements of a top-level list or map of
	// messages is the declared element type (elements are rebuilt on every call), so only such faults apply.
	declaredOnly := reused != 0 && coin(t, 1, 3, "declaredOnly")
	if declaredOnly {
		h.add("TypesRedeclared", "the target's type tree is a fresh copy; stored values keep their own complete types")
	}
	// the twin goes through the same history without the fault (what a reused target keeps from its
	// earlier state is C09's business, not this property's)
	twinO := re.emptyObject()
	var twinErrs []string
	if reused != 0 {
		if p := safely(func() { twinErrs = errorDiags(re.fn.To(ctx, src0, &twinO)) }); p != "" || len(twinErrs) > 0 {
			return
		}
	}
	if p := safely(func() { twinErrs = errorDiags(re.fn.To(ctx, src, &twinO)) }); p != "" || len(twinErrs) > 0 {
		return
	}
	twinTree := looseTree(twinO)
	var sites []typeFault
	typeFaults(re.view, reflect.ValueOf(src).Elem(), nil, &sites)
	// the same attribute type is reached through several elements: one site per type path
	uniq := map[string]typeFault{}
	for _, s := range sites {
		uniq[typePathKey(s.path)] = s
	}
	keys := make([]string, 0, len(uniq))
	for k := range uniq {
		keys = append(keys, k)
	}
	sort.Strings(keys)
	run := func(fs []typeFault, what string) {
		typ := cloneType(re.objType).(types.ObjectType)
		O := types.Object{Attrs: map[string]attr.Value{}, AttrTypes: typ.AttrTypes}
		if reused != 0 {
			var errs []string
			if p := safely(func() { errs = errorDiags(re.fn.To(ctx, src0, &O)) }); p != "" || len(errs) > 0 {
				return // the fault-free first write misbehaves: C07's business
			}
			st.probe("type-removed-from-reused-target")
		}
		if declaredOnly {
			typ = cloneType(typ).(types.ObjectType)
			O.AttrTypes = typ.AttrTypes
			var keep []typeFault
			for _, f := range fs {
				if len(f.path) != 2 {
					continue
				}
				switch x := typ.AttrTypes[f.path[0].attr].(type) {
				case types.ListType:
					if _, ok := x.ElemType.(types.ObjectType); ok {
						keep = append(keep, f)
					}
				case types.MapType:
					if _, ok := x.ElemType.(types.ObjectType); ok {
						keep = append(keep, f)
					}
				}
			}
			if len(keep) == 0 {
				return
			}
			fs = keep
			st.probe("type-removed-from-declared-element-type-only")
		}
		removed := map[string]bool{}
		var ffs []fault
		for _, f := range fs {
			removeType(typ, f.path)
			if !declaredOnly {
				removeTypeInValue(O, f.path)
			}
			removed[typePathKey(f.path)] = true
			st.fault(fTypeGone)
			ffs = append(ffs, fault{kind: fTypeGone, path: f.path, expect: []expDiag{f.expect}})
		}
		var ds diag.Diagnostics
		if p := safely(func() { ds = re.fn.To(ctx, src, &O) }); p != "" {
			violate(t, "C06/copy-to/no-panic", "CopyTo panicked: %s\nremoved types: %v\nhistory: %s", p, removedList(fs), strings.Join(h.lines, " ; "))
		}
		checkDiags(t, "C06", "copy-to", ffs, ds, h, what)
		compareWritten(t, looseTree(O), twinTree, "", removed, fs, h)
	}
	if rapid.IntRange(0, 1).Draw(t, "mode") == 0 {
		h.add("RemoveEachType", fmt.Sprintf("%d single faults", len(keys)))
		h.kinds[len(h.kinds)-1] = fmt.Sprintf("RemoveEachType:%d", len(keys))
		for _, k := range keys {
			run([]typeFault{uniq[k]}, "single removed type")
		}
		st.probe("exhaustive-single-type-removals")
		return
	}
	if len(keys) == 0 {
		return
	}
	n := rapid.IntRange(2, 5).Draw(t, "nfaults")
	var fs []typeFault
	for i := 0; i < n; i++ {
		f := uniq[keys[rapid.IntRange(0, len(keys)-1).Draw(t, fmt.Sprintf("site%d", i))]]
		clash := false
		for _, g := range fs {
			if isPrefix(g.path, f.path) || isPrefix(f.path, g.path) {
				clash = true
			}
		}
		if !clash {
			fs = append(fs, f)
		}
	}
	h.add("RemoveTypes", fmt.Sprint(removedList(fs)))
	h.kinds[len(h.kinds)-1] = "RemoveTypes:" + strings.Join(removedList(fs), "+")
	run(fs, "set of removed types")
}
