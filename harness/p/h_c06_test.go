package p

import "pgregory.net/rapid"

func propC06(re *rootEnv) func(*rapid.T) {
	return func(t *rapid.T) { t.Skip("not built yet") }
}
