package p

// convsim harness, part 1: environment — program/view loading, the stub "framework" (decode,
// restart, empty objects, observation through tftypes.Value) and small utilities.

import (
	"context"
	"encoding/json"
	"fmt"
	"os"
	"reflect"
	"sort"
	"strings"

	"github.com/hashicorp/terraform-plugin-framework/attr"
	"github.com/hashicorp/terraform-plugin-framework/diag"
	"github.com/hashicorp/terraform-plugin-framework/tfsdk"
	"github.com/hashicorp/terraform-plugin-framework/types"
	"github.com/hashicorp/terraform-plugin-go/tfprotov6"
	"github.com/hashicorp/terraform-plugin-go/tftypes"

	"scratch/spec"
)

var ctx = context.Background()

// rootFuncs is filled by registry_gen_test.go (generated at assembly time).
type rootFuncs struct {
	New    func() interface{}
	Schema func(context.Context) (tfsdk.Schema, diag.Diagnostics)
	From   func(context.Context, types.Object, interface{}) diag.Diagnostics
	To     func(context.Context, interface{}, *types.Object) diag.Diagnostics
}

type rootEnv struct {
	name     string
	fn       rootFuncs
	view     *spec.Node
	objType  types.ObjectType
	tfType   tftypes.Object
	injected map[string]bool
}

var (
	program  *spec.Program
	rootEnvs = map[string]*rootEnv{}
)

func loadProgram() error {
	path := os.Getenv("VERIF_PROGRAM")
	if path == "" {
		return fmt.Errorf("VERIF_PROGRAM not set")
	}
	b, err := os.ReadFile(path)
	if err != nil {
		return err
	}
	program = &spec.Program{}
	if err := json.Unmarshal(b, program); err != nil {
		return err
	}
	for name, fn := range registry {
		sch, d := fn.Schema(ctx)
		if d.HasError() {
			return fmt.Errorf("GenSchema%s: %v", name, d)
		}
		ot, ok := sch.AttributeType().(types.ObjectType)
		if !ok {
			return fmt.Errorf("schema of %s is not an object type", name)
		}
		tt, ok := ot.TerraformType(ctx).(tftypes.Object)
		if !ok {
			return fmt.Errorf("terraform type of %s is not an object", name)
		}
		re := &rootEnv{name: name, fn: fn, view: program.View(name, &program.Config), objType: ot, tfType: tt, injected: map[string]bool{}}
		for _, inj := range program.Config.InjectedFields[name] {
			re.injected[inj.Name] = true
		}
		rootEnvs[name] = re
	}
	return nil
}

// emptyObject is the "empty schema-typed object" of the properties: attribute types, no values.
func (re *rootEnv) emptyObject() types.Object {
	return types.Object{Attrs: map[string]attr.Value{}, AttrTypes: re.objType.AttrTypes}
}

// decode is what Plan.Get / State.Get hand to provider code.
func (re *rootEnv) decode(v tftypes.Value) (types.Object, error) {
	a, err := re.objType.ValueFromTerraform(ctx, v)
	if err != nil {
		return types.Object{}, err
	}
	o, ok := a.(types.Object)
	if !ok {
		return types.Object{}, fmt.Errorf("decode gave %T", a)
	}
	return o, nil
}

// tfOf observes an object as the Terraform value it stands for; injected attributes the
// converters never touch are filled with nulls first (on a copy).
func (re *rootEnv) tfOf(o types.Object) (tftypes.Value, error) {
	if len(re.injected) > 0 && !o.Null && !o.Unknown {
		c := o
		c.Attrs = make(map[string]attr.Value, len(o.Attrs)+len(re.injected))
		for k, v := range o.Attrs {
			c.Attrs[k] = v
		}
		for name := range re.injected {
			if _, ok := c.Attrs[name]; !ok {
				t := o.AttrTypes[name]
				if t == nil {
					continue
				}
				nv, err := t.ValueFromTerraform(ctx, tftypes.NewValue(t.TerraformType(ctx), nil))
				if err != nil {
					return tftypes.Value{}, err
				}
				c.Attrs[name] = nv
			}
		}
		o = c
	}
	return o.ToTerraformValue(ctx)
}

// restart reduces an object to its durable form and back: value -> msgpack DynamicValue -> value ->
// framework decode. Only durable state survives.
func (re *rootEnv) restart(o types.Object) (types.Object, error) {
	v, err := re.tfOf(o)
	if err != nil {
		return types.Object{}, err
	}
	return re.restartTF(v)
}

func (re *rootEnv) restartTF(v tftypes.Value) (types.Object, error) {
	dv, err := tfprotov6.NewDynamicValue(re.tfType, v)
	if err != nil {
		return types.Object{}, err
	}
	back, err := dv.Unmarshal(re.tfType)
	if err != nil {
		return types.Object{}, err
	}
	return re.decode(back)
}

// cloneAttr deep-copies an attribute value (containers are shared by Go value copies otherwise).
func cloneAttr(v attr.Value) attr.Value {
	switch x := v.(type) {
	case types.Object:
		c := x
		if x.Attrs != nil {
			c.Attrs = make(map[string]attr.Value, len(x.Attrs))
			for k, a := range x.Attrs {
				c.Attrs[k] = cloneAttr(a)
			}
		}
		return c
	case types.List:
		c := x
		if x.Elems != nil {
			c.Elems = make([]attr.Value, len(x.Elems))
			for i, a := range x.Elems {
				c.Elems[i] = cloneAttr(a)
			}
		}
		return c
	case types.Map:
		c := x
		if x.Elems != nil {
			c.Elems = make(map[string]attr.Value, len(x.Elems))
			for k, a := range x.Elems {
				c.Elems[k] = cloneAttr(a)
			}
		}
		return c
	}
	return v
}

func cloneObject(o types.Object) types.Object { return cloneAttr(o).(types.Object) }

// errorDiags returns the error-severity diagnostics as strings.
func errorDiags(d diag.Diagnostics) []string {
	var r []string
	for _, x := range d {
		if x.Severity() == diag.SeverityError {
			r = append(r, x.Summary()+": "+x.Detail())
		}
	}
	return r
}

// safely runs f and converts a panic into an error string.
func safely(f func()) (panicked string) {
	defer func() {
		if r := recover(); r != nil {
			panicked = fmt.Sprint(r)
		}
	}()
	f()
	return ""
}

// deepCopyStruct copies a generated struct (pointer to struct) through reflection.
func deepCopyValue(v reflect.Value) reflect.Value {
	switch v.Kind() {
	case reflect.Ptr:
		if v.IsNil() {
			return reflect.Zero(v.Type())
		}
		n := reflect.New(v.Type().Elem())
		n.Elem().Set(deepCopyValue(v.Elem()))
		return n
	case reflect.Interface:
		if v.IsNil() {
			return reflect.Zero(v.Type())
		}
		n := reflect.New(v.Type()).Elem()
		n.Set(deepCopyValue(v.Elem()))
		return n
	case reflect.Struct:
		n := reflect.New(v.Type()).Elem()
		if v.Type().String() == "time.Time" {
			n.Set(v)
			return n
		}
		for i := 0; i < v.NumField(); i++ {
			if n.Field(i).CanSet() {
				n.Field(i).Set(deepCopyValue(v.Field(i)))
			}
		}
		return n
	case reflect.Slice:
		if v.IsNil() {
			return reflect.Zero(v.Type())
		}
		n := reflect.MakeSlice(v.Type(), v.Len(), v.Len())
		for i := 0; i < v.Len(); i++ {
			n.Index(i).Set(deepCopyValue(v.Index(i)))
		}
		return n
	case reflect.Map:
		if v.IsNil() {
			return reflect.Zero(v.Type())
		}
		n := reflect.MakeMapWithSize(v.Type(), v.Len())
		it := v.MapRange()
		for it.Next() {
			n.SetMapIndex(it.Key(), deepCopyValue(it.Value()))
		}
		return n
	}
	return v
}

func deepCopyStruct(p interface{}) interface{} {
	return deepCopyValue(reflect.ValueOf(p)).Interface()
}

// tfString renders a tftypes.Value compactly and deterministically (for logs and samples).
func tfString(v tftypes.Value) string {
	if !v.IsKnown() {
		return "?"
	}
	if v.IsNull() {
		return "null"
	}
	t := v.Type()
	switch {
	case t.Is(tftypes.String):
		var s string
		_ = v.As(&s)
		return fmt.Sprintf("%q", s)
	case t.Is(tftypes.Number):
		var f interface{ String() string }
		bf := newBigFloat()
		_ = v.As(&bf)
		f = bf
		return f.String()
	case t.Is(tftypes.Bool):
		var b bool
		_ = v.As(&b)
		return fmt.Sprint(b)
	case t.Is(tftypes.List{}):
		var l []tftypes.Value
		_ = v.As(&l)
		ss := make([]string, len(l))
		for i, e := range l {
			ss[i] = tfString(e)
		}
		return "[" + strings.Join(ss, ",") + "]"
	case t.Is(tftypes.Map{}), t.Is(tftypes.Object{}):
		var m map[string]tftypes.Value
		_ = v.As(&m)
		ks := make([]string, 0, len(m))
		for k := range m {
			ks = append(ks, k)
		}
		sort.Strings(ks)
		ss := make([]string, len(ks))
		for i, k := range ks {
			ss[i] = k + ":" + tfString(m[k])
		}
		return "{" + strings.Join(ss, ",") + "}"
	}
	return v.String()
}

func getenv(k string) string { return os.Getenv(k) }
