package p

// convsim harness, part 2: seeded generation of struct values and Terraform values, steered by the
// shape spec's oracle view. Every draw goes through rapid.

import (
	"fmt"
	"math"
	"math/big"
	"reflect"
	"sort"
	"strconv"
	"strings"
	"time"

	"github.com/hashicorp/terraform-plugin-go/tftypes"
	"pgregory.net/rapid"

	"scratch/spec"
)

func newBigFloat() *big.Float { return new(big.Float) }

var (
	// strings that differ from one another only by surrounding whitespace or a trailing newline, by case,
	// by a prefix; words that read like other types
	strPool      = []string{"", "a", "b", "x y", "ünï", "zz", "0", "q\"uo\\te\nline", "a", strings.Repeat("long-", 700), "a\n", "\n", " a", "a ", "A", "ab", "\t", "null", "true"}
	rawBytesPool = []string{"\xff\xfe\x80", "\xc3", "\x00", "a\xffb", "\x00\x00", "\xed\xa0\x80", "ok\xc3"}
	keyPool      = []string{"k1", "k2", "k3", "key four", "K1", "k.1/é", "", "k1 ", "k", "k11"}
	int32Pool    = []int64{0, 1, -1, 42, math.MaxInt32, math.MinInt32}
	int64Pool    = []int64{0, 1, -1, 4242, math.MaxInt64, math.MinInt64}
	u32Pool      = []uint64{0, 1, 77, math.MaxUint32}
	u64Pool      = []uint64{0, 1, 99, math.MaxInt64}
	// struct side only: the Int64 attribute carries values above MaxInt64 as negative numbers and back
	u64Struct = []uint64{0, 1, 99, math.MaxInt64, math.MaxInt64 + 1, math.MaxUint64}
	f32Pool   = []float64{0, 1.5, -2.25, float64(float32(3.4e38)), float64(float32(1e-30)), float64(float32(0.1)), float64(float32(1) / 3), math.Inf(1), math.Copysign(0, -1)}
	f64Pool   = []float64{0, 1.5, -2.25, 1e300, 2.5e-300, 0.1, 1.0 / 3, math.Inf(-1), math.Copysign(0, -1), math.MaxFloat64, math.SmallestNonzeroFloat64}
	durPool   = []int64{0, 1, -1, int64(90 * time.Minute), math.MaxInt64, 2, int64(90*time.Minute) + 1, math.MinInt64, int64(time.Millisecond), 999}
	timePool  = []time.Time{
		{},
		time.Date(9999, 12, 31, 23, 59, 59, 999999999, time.UTC),
		time.Unix(0, 0).UTC(),
		time.Date(2022, 3, 4, 5, 6, 7, 123456789, time.UTC),
		time.Date(1999, 12, 31, 23, 59, 59, 0, time.FixedZone("X", 3600*5+1800)),
		time.Date(2100, 1, 1, 0, 0, 0, 1, time.FixedZone("Y", -3600*8)),
		// near-duplicates: one nanosecond apart; the same instant in another zone; a leap day; before 1970
		time.Date(2022, 3, 4, 5, 6, 7, 123456790, time.UTC),
		time.Date(2022, 3, 4, 10, 36, 7, 123456789, time.FixedZone("X", 3600*5+1800)),
		time.Date(2024, 2, 29, 23, 59, 59, 999999999, time.UTC),
		time.Date(1901, 12, 13, 20, 45, 52, 0, time.UTC),
	}
)

func pick[T any](t *rapid.T, pool []T, label string) T {
	return pool[rapid.IntRange(0, len(pool)-1).Draw(t, label)]
}

// coin draws true with probability num/den.
func coin(t *rapid.T, num, den int, label string) bool {
	return rapid.IntRange(0, den-1).Draw(t, label) < num
}

// ---------------------------------------------------------------------------------------------
// struct side

// holderOf walks the embedding chain. With alloc, nil embedded pointers are allocated.
func holderOf(rv reflect.Value, via []spec.Via, alloc bool) reflect.Value {
	cur := rv
	for _, v := range via {
		f := cur.FieldByName(v.Go)
		if !f.IsValid() {
			panic(fmt.Sprintf("harness: no embedded field %s in %s", v.Go, cur.Type()))
		}
		if f.Kind() == reflect.Ptr {
			if f.IsNil() {
				if !alloc {
					return reflect.Value{}
				}
				f.Set(reflect.New(f.Type().Elem()))
			}
			cur = f.Elem()
		} else {
			cur = f
		}
	}
	return cur
}

func viaKey(via []spec.Via) string {
	var b strings.Builder
	for _, v := range via {
		b.WriteString(v.Go + "/")
	}
	return b.String()
}

func hasNullableVia(via []spec.Via) bool {
	for _, v := range via {
		if v.Nullable {
			return true
		}
	}
	return false
}

// scalarInto produces a Go value of field f's element type.
func genScalar(t *rapid.T, f *spec.Field, typ reflect.Type, label string) reflect.Value {
	conv := func(x interface{}) reflect.Value { return reflect.ValueOf(x).Convert(typ) }
	switch {
	case f.Kind == spec.KTime:
		return reflect.ValueOf(pick(t, timePool, label))
	case f.Kind == spec.KDuration || f.IsCastDuration():
		return conv(pick(t, durPool, label))
	}
	switch f.Kind {
	case spec.KDouble:
		return conv(pick(t, f64Pool, label))
	case spec.KFloat:
		return conv(pick(t, f32Pool, label))
	case spec.KInt32, spec.KSint32, spec.KSfixed32:
		return conv(pick(t, int32Pool, label))
	case spec.KInt64, spec.KSint64, spec.KSfixed64:
		return conv(pick(t, int64Pool, label))
	case spec.KUint32, spec.KFixed32:
		return conv(pick(t, u32Pool, label))
	case spec.KUint64, spec.KFixed64:
		return conv(pick(t, u64Struct, label))
	case spec.KBool:
		return conv(rapid.Bool().Draw(t, label))
	case spec.KString:
		return conv(pick(t, strPool, label))
	case spec.KBytes:
		// byte strings need not be text: payloads that are not valid UTF-8, NUL bytes
		if coin(t, 1, 4, label+"/raw") {
			return conv([]byte(pick(t, rawBytesPool, label+"/rawv")))
		}
		s := pick(t, strPool, label)
		if s == "" && coin(t, 1, 2, label+"/nil") {
			return reflect.Zero(typ)
		}
		return conv([]byte(s))
	case spec.KEnum:
		n := len(program.Enum(f.Ref).Values)
		return conv(int32(rapid.IntRange(0, n+1).Draw(t, label))) // n and n+1 are not declared constants: still legal numbers
	}
	panic("harness: genScalar on kind " + f.Kind)
}

// genElem produces one element (or singular value) for entry e of Go type typ.
func genElem(t *rapid.T, e *spec.Entry, typ reflect.Type, depth int, label string) reflect.Value {
	if e.F.Kind == spec.KMessage {
		if typ.Kind() == reflect.Ptr {
			n := reflect.New(typ.Elem())
			genInto(t, e.Child, n.Elem(), depth+1, label)
			return n
		}
		n := reflect.New(typ).Elem()
		genInto(t, e.Child, n, depth+1, label)
		return n
	}
	if typ.Kind() == reflect.Ptr { // nullable time / duration
		v := genScalar(t, e.F, typ.Elem(), label)
		n := reflect.New(typ.Elem())
		n.Elem().Set(v)
		return n
	}
	return genScalar(t, e.F, typ, label)
}

func sizeDraw(t *rapid.T, depth int, label string) int {
	// -1 nil, 0 empty, 1..3 entries; deeper levels stay small
	hi := 3
	if depth >= 2 {
		hi = 1
	}
	n := rapid.IntRange(-1, hi).Draw(t, label)
	if n == hi && depth == 0 && coin(t, 1, 8, label+"/long") {
		// an occasional long top-level collection (capacity / length bookkeeping, growth boundaries)
		n = []int{9, 16, 17, 33}[rapid.IntRange(0, 3).Draw(t, label+"/longn")]
	}
	return n
}

// genField fills one struct field according to its entry.
func genField(t *rapid.T, e *spec.Entry, fv reflect.Value, depth int, label string) {
	switch e.F.Card {
	case spec.CardList:
		n := sizeDraw(t, depth, label+"#")
		if n < 0 {
			fv.Set(reflect.Zero(fv.Type()))
			return
		}
		s := reflect.MakeSlice(fv.Type(), n, n)
		for i := 0; i < n; i++ {
			l := fmt.Sprintf("%s[%d]", label, i)
			if fv.Type().Elem().Kind() == reflect.Ptr && coin(t, 1, 8, l+"/nil") {
				continue // a nil pointer element is a legal Go value
			}
			s.Index(i).Set(genElem(t, e, fv.Type().Elem(), depth, l))
		}
		fv.Set(s)
	case spec.CardMap:
		n := sizeDraw(t, depth, label+"#")
		if n < 0 {
			fv.Set(reflect.Zero(fv.Type()))
			return
		}
		if n > len(keyPool) {
			n = len(keyPool)
		}
		m := reflect.MakeMapWithSize(fv.Type(), n)
		start := rapid.IntRange(0, len(keyPool)-1).Draw(t, label+"/k0")
		// one time in four the first key is the NAME OF A SIBLING ATTRIBUTE of the object that holds the map
		// (a map key and an attribute name live in different name spaces)
		sib := ""
		if len(siblingAttrs) > 0 && n > 0 && coin(t, 1, 4, label+"/sibkey") {
			sib = siblingAttrs[rapid.IntRange(0, len(siblingAttrs)-1).Draw(t, label+"/sibname")]
		}
		for i := 0; i < n; i++ {
			k := keyPool[(start+i)%len(keyPool)]
			if i == 0 && sib != "" {
				k = sib
			}
			if fv.Type().Elem().Kind() == reflect.Ptr && coin(t, 1, 8, label+"["+k+"]/nil") {
				m.SetMapIndex(reflect.ValueOf(k), reflect.Zero(fv.Type().Elem())) // key present, nil value
				continue
			}
			m.SetMapIndex(reflect.ValueOf(k), genElem(t, e, fv.Type().Elem(), depth, label+"["+k+"]"))
		}
		fv.Set(m)
	default:
		if fv.Kind() == reflect.Ptr && coin(t, 1, 3, label+"/nil") {
			fv.Set(reflect.Zero(fv.Type()))
			return
		}
		fv.Set(genElem(t, e, fv.Type(), depth, label))
	}
}

// oneofWrapper finds the wrapper type (pointer to struct with a single field named goField).
func oneofWrapper(owner reflect.Value, goField string) reflect.Type {
	m := reflect.New(owner.Type()).MethodByName("XXX_OneofWrappers")
	if !m.IsValid() {
		panic("harness: no XXX_OneofWrappers on " + owner.Type().String())
	}
	ws := m.Call(nil)[0].Interface().([]interface{})
	for _, w := range ws {
		wt := reflect.TypeOf(w)
		if wt.Elem().NumField() == 1 && wt.Elem().Field(0).Name == goField {
			return wt
		}
	}
	panic("harness: no oneof wrapper for " + goField)
}

func sameVia(a, b []spec.Via) bool { return viaKey(a) == viaKey(b) }

// declOf: the excluded field belongs to the oneof's declaring message iff that message has a field of its name in the group.
func declOf(o spec.OneofRef, x spec.Excl) string {
	for i := range o.Decl.Fields {
		f := &o.Decl.Fields[i]
		if f == x.F || (f.Name == x.F.Name && f.Oneof == o.Name) {
			return o.Decl.Name
		}
	}
	return ""
}

// genInto fills struct rv (addressable) with a value drawn for node n. Prior contents are
// overwritten field by field (fields of nil nullable embedded parents are left alone).
// siblingAttrs holds the attribute names of the node being filled (read by genField for map keys).
var siblingAttrs []string

func genInto(t *rapid.T, n *spec.Node, rv reflect.Value, depth int, label string) {
	saved := siblingAttrs
	siblingAttrs = nil
	for _, e := range n.Entries {
		siblingAttrs = append(siblingAttrs, e.Attr)
	}
	defer func() { siblingAttrs = saved }()
	embedNil := map[string]bool{}
	parentNil := func(via []spec.Via) bool {
		for i, v := range via {
			if !v.Nullable {
				continue
			}
			k := viaKey(via[:i+1])
			d, ok := embedNil[k]
			if !ok {
				d = coin(t, 1, 3, label+"/embnil:"+k)
				embedNil[k] = d
				if d {
					h := holderOf(rv, via[:i], true)
					f := h.FieldByName(v.Go)
					f.Set(reflect.Zero(f.Type()))
				}
			}
			if d {
				return true
			}
		}
		return false
	}
	// oneof groups
	for _, o := range n.Oneofs {
		if parentNil(o.Via) {
			continue
		}
		var branches []*spec.Entry
		for _, e := range n.Entries {
			if e.F != nil && e.F.Oneof == o.Name && e.Decl == o.Decl && sameVia(e.Via, o.Via) {
				branches = append(branches, e)
			}
		}
		// a branch that is excluded from the schema can still be what the struct holds
		for _, x := range n.Excluded {
			if x.F.Oneof == o.Name && sameVia(x.Via, o.Via) && x.F.Kind != spec.KMessage && o.Decl.Name == declOf(o, x) {
				branches = append(branches, &spec.Entry{Go: x.Go, F: x.F, Via: x.Via, Decl: o.Decl})
			}
		}
		owner := holderOf(rv, o.Via, true)
		hf := owner.FieldByName(o.Go)
		if !hf.IsValid() {
			panic("harness: no oneof holder " + o.Go + " in " + owner.Type().String())
		}
		idx := rapid.IntRange(-1, len(branches)-1).Draw(t, label+"/oneof:"+o.Name)
		if idx < 0 || len(branches) == 0 {
			hf.Set(reflect.Zero(hf.Type()))
			continue
		}
		e := branches[idx]
		wt := oneofWrapper(owner, e.Go)
		w := reflect.New(wt.Elem())
		pf := w.Elem().Field(0)
		if pf.Kind() == reflect.Ptr && coin(t, 1, 6, label+"/oneofnil:"+e.Go) {
			// wrapper with a nil message payload: legal Go value
		} else {
			pf.Set(genElem(t, e, pf.Type(), depth, label+"."+e.Go))
		}
		hf.Set(w)
	}
	for _, e := range n.Entries {
		if e.Placeholder || e.F.Oneof != "" {
			continue
		}
		if parentNil(e.Via) {
			continue
		}
		h := holderOf(rv, e.Via, true)
		fv := h.FieldByName(e.Go)
		if !fv.IsValid() {
			panic(fmt.Sprintf("harness: no field %s in %s", e.Go, h.Type()))
		}
		genField(t, e, fv, depth, label+"."+e.Go)
	}
	for _, x := range n.Excluded {
		if x.F.Kind == spec.KMessage || x.F.Embed || x.F.MapKey != "" || parentNil(x.Via) {
			continue
		}
		h := holderOf(rv, x.Via, true)
		fv := h.FieldByName(x.Go)
		if !fv.IsValid() {
			continue
		}
		genField(t, &spec.Entry{Go: x.Go, F: x.F}, fv, depth, label+"."+x.Go+"(excluded)")
	}
}

// genStruct draws a fresh value of root type re.
func genStruct(t *rapid.T, re *rootEnv, label string) interface{} {
	p := re.fn.New()
	genInto(t, re.view, reflect.ValueOf(p).Elem(), 0, label)
	return p
}

// ---------------------------------------------------------------------------------------------
// Terraform side

type tfMode struct {
	unknownOK    bool // unknown values may appear
	nullElems    bool // null / unknown list and map elements may appear
	unkElems     bool // unknown (but not null) list and map elements may appear
	oneofAtMost1 bool // at most one branch of a oneof group is not null
	othersUnk    bool // with oneofAtMost1: the other branches may be unknown instead of null (C07's precondition)
	pNull, pUnk  int  // percentages for attribute state
	// noPlaceholderValue: the `active` placeholder of an empty message is null or unknown, never set
	noPlaceholderValue bool
}

var (
	modePlan  = tfMode{unknownOK: true, nullElems: false, unkElems: true, oneofAtMost1: true, pNull: 25, pUnk: 25}
	modeAny   = tfMode{unknownOK: true, nullElems: true, oneofAtMost1: false, pNull: 25, pUnk: 20}
	modeOneof = tfMode{unknownOK: true, nullElems: false, oneofAtMost1: true, othersUnk: true, pNull: 25, pUnk: 25}
	modeState = tfMode{unknownOK: false, nullElems: false, oneofAtMost1: true, pNull: 30, pUnk: 0}
)

const (
	stKnown = iota
	stNull
	stUnknown
)

func drawState(t *rapid.T, m tfMode, label string) int {
	x := rapid.IntRange(0, 99).Draw(t, label+"/st")
	switch {
	case x < m.pNull:
		return stNull
	case m.unknownOK && x < m.pNull+m.pUnk:
		return stUnknown
	}
	return stKnown
}

func stateValue(typ tftypes.Type, st int) tftypes.Value {
	if st == stNull {
		return tftypes.NewValue(typ, nil)
	}
	return tftypes.NewValue(typ, tftypes.UnknownValue)
}

func bigInt(n int64) *big.Float   { return new(big.Float).SetInt64(n) }
func bigUint(n uint64) *big.Float { return new(big.Float).SetUint64(n) }

// genTFScalar draws a known scalar value of the attribute type for field f.
func genTFScalar(t *rapid.T, f *spec.Field, typ tftypes.Type, label string) tftypes.Value {
	switch {
	case f.Kind == spec.KTime:
		return tftypes.NewValue(typ, pick(t, timePool, label).Format(time.RFC3339Nano)) // offsets kept
	case f.Kind == spec.KDuration || f.IsCastDuration():
		return tftypes.NewValue(typ, strconv.FormatInt(pick(t, durPool, label), 10))
	}
	switch f.Kind {
	case spec.KDouble:
		return tftypes.NewValue(typ, big.NewFloat(pick(t, f64Pool, label)))
	case spec.KFloat:
		return tftypes.NewValue(typ, big.NewFloat(pick(t, f32Pool, label)))
	case spec.KInt32, spec.KSint32, spec.KSfixed32:
		return tftypes.NewValue(typ, bigInt(pick(t, int32Pool, label)))
	case spec.KInt64, spec.KSint64, spec.KSfixed64:
		return tftypes.NewValue(typ, bigInt(pick(t, int64Pool, label)))
	case spec.KUint32, spec.KFixed32:
		return tftypes.NewValue(typ, bigUint(pick(t, u32Pool, label)))
	case spec.KUint64, spec.KFixed64:
		return tftypes.NewValue(typ, bigUint(pick(t, u64Pool, label)))
	case spec.KBool:
		return tftypes.NewValue(typ, rapid.Bool().Draw(t, label))
	case spec.KBytes:
		// a byte string need not be text on this side either (the attribute value is a Go string)
		if coin(t, 1, 5, label+"/raw") {
			return tftypes.NewValue(typ, pick(t, rawBytesPool, label+"/rawv"))
		}
		return tftypes.NewValue(typ, pick(t, strPool, label))
	case spec.KString:
		return tftypes.NewValue(typ, pick(t, strPool, label))
	case spec.KEnum:
		n := len(program.Enum(f.Ref).Values)
		return tftypes.NewValue(typ, bigInt(int64(rapid.IntRange(0, n+1).Draw(t, label))))
	}
	panic("harness: genTFScalar on kind " + f.Kind)
}

// genTFElem draws one element (or singular value) of entry e with the given state.
func genTFElem(t *rapid.T, e *spec.Entry, typ tftypes.Type, m tfMode, st int, depth int, label string) tftypes.Value {
	if st != stKnown {
		return stateValue(typ, st)
	}
	if e.F.Kind == spec.KMessage {
		return genTFNode(t, e.Child, typ.(tftypes.Object), nil, m, depth+1, label)
	}
	return genTFScalar(t, e.F, typ, label)
}

func genTFAttr(t *rapid.T, e *spec.Entry, typ tftypes.Type, m tfMode, st int, depth int, label string) tftypes.Value {
	if st != stKnown {
		return stateValue(typ, st)
	}
	elemState := func(l string) int {
		if m.nullElems {
			return drawState(t, tfMode{unknownOK: m.unknownOK, pNull: 15, pUnk: 10}, l)
		}
		if m.unkElems && coin(t, 1, 8, l+"/unk") {
			return stUnknown // C08 excludes null elements only
		}
		return stKnown
	}
	hi := 3
	if depth >= 2 {
		hi = 1
	}
	switch e.F.Card {
	case spec.CardList:
		et := typ.(tftypes.List).ElementType
		n := rapid.IntRange(0, hi).Draw(t, label+"#")
		els := make([]tftypes.Value, n)
		for i := range els {
			l := fmt.Sprintf("%s[%d]", label, i)
			els[i] = genTFElem(t, e, et, m, elemState(l), depth, l)
		}
		return tftypes.NewValue(typ, els)
	case spec.CardMap:
		et := typ.(tftypes.Map).ElementType
		n := rapid.IntRange(0, hi).Draw(t, label+"#")
		start := rapid.IntRange(0, len(keyPool)-1).Draw(t, label+"/k0")
		els := map[string]tftypes.Value{}
		for i := 0; i < n; i++ {
			k := keyPool[(start+i)%len(keyPool)]
			l := label + "[" + k + "]"
			els[k] = genTFElem(t, e, et, m, elemState(l), depth, l)
		}
		return tftypes.NewValue(typ, els)
	}
	return genTFElem(t, e, typ, m, stKnown, depth, label)
}

// genTFNode draws a known, non-null object value for node n. injected lists extra attributes of
// the object type that do not stem from proto fields.
func genTFNode(t *rapid.T, n *spec.Node, typ tftypes.Object, injected map[string]bool, m tfMode, depth int, label string) tftypes.Value {
	vals := map[string]tftypes.Value{}
	// decide oneof groups first
	chosen := map[*spec.Entry]bool{}
	grouped := map[*spec.Entry]bool{}
	if m.oneofAtMost1 {
		for _, o := range n.Oneofs {
			var br []*spec.Entry
			for _, e := range n.Entries {
				if e.F != nil && e.F.Oneof == o.Name && e.Decl == o.Decl && sameVia(e.Via, o.Via) {
					br = append(br, e)
					grouped[e] = true
				}
			}
			if idx := rapid.IntRange(-1, len(br)-1).Draw(t, label+"/oneof:"+o.Name); idx >= 0 {
				chosen[br[idx]] = true
			}
		}
	}
	for _, e := range n.Entries {
		at, ok := typ.AttributeTypes[e.Attr]
		if !ok {
			// the generated schema does not describe a field that descriptor and configuration describe: no
			// conforming object can carry it. The value is drawn without it; the clauses that look at this
			// attribute (written at all, reported when its type is missing, follows the source) judge.
			st.probe("schema-lacks-described-attribute")
			continue
		}
		l := label + "." + e.Attr
		if e.Placeholder {
			st := drawState(t, m, l)
			if st == stKnown && m.noPlaceholderValue {
				st = stNull
			}
			if st == stKnown {
				vals[e.Attr] = tftypes.NewValue(at, rapid.Bool().Draw(t, l))
			} else {
				vals[e.Attr] = stateValue(at, st)
			}
			continue
		}
		st := drawState(t, m, l)
		if grouped[e] {
			switch {
			case chosen[e] && m.othersUnk:
				st = stKnown // C07: exactly one branch known and non-null
			case chosen[e]:
				if st == stNull { // C08: the one branch that is not null (known or unknown)
					st = stKnown
				}
			case st == stKnown || !m.othersUnk:
				st = stNull
			}
		}
		vals[e.Attr] = genTFAttr(t, e, at, m, st, depth, l)
	}
	injNames := make([]string, 0, len(injected))
	for name := range injected {
		injNames = append(injNames, name)
	}
	sort.Strings(injNames)
	for _, name := range injNames {
		at, ok := typ.AttributeTypes[name]
		if !ok {
			continue
		}
		st := drawState(t, m, label+"."+name)
		if st != stKnown {
			vals[name] = stateValue(at, st)
			continue
		}
		switch {
		case at.Is(tftypes.String):
			vals[name] = tftypes.NewValue(at, pick(t, strPool, label+"."+name))
		case at.Is(tftypes.Number):
			vals[name] = tftypes.NewValue(at, bigInt(pick(t, int32Pool, label+"."+name)))
		case at.Is(tftypes.Bool):
			vals[name] = tftypes.NewValue(at, rapid.Bool().Draw(t, label+"."+name))
		default:
			vals[name] = tftypes.NewValue(at, nil)
		}
	}
	return tftypes.NewValue(typ, vals)
}

// genTF draws a value of root re's Terraform type.
func genTF(t *rapid.T, re *rootEnv, m tfMode, label string) tftypes.Value {
	return genTFNode(t, re.view, re.tfType, re.injected, m, 0, label)
}

// ---------------------------------------------------------------------------------------------
// aliasing inside prior contents of a target struct: two pointer fields holding the same pointer, a
// pointer to a sibling value field, list elements repeated, slices sharing their backing array. All of
// these are legal Go values of the target type ("all prior contents of the target struct").

type aliasSite struct {
	v    reflect.Value // settable pointer-typed location
	name string
}

func collectAliasSites(v reflect.Value, name string, depth int, ptrs map[reflect.Type][]aliasSite, vals map[reflect.Type][]aliasSite, slices map[reflect.Type][]aliasSite) {
	if depth > 4 {
		return
	}
	switch v.Kind() {
	case reflect.Struct:
		if v.CanAddr() && depth > 0 {
			vals[v.Type()] = append(vals[v.Type()], aliasSite{v, name})
		}
		if v.Type().PkgPath() == "time" {
			return
		}
		for i := 0; i < v.NumField(); i++ {
			sf := v.Type().Field(i)
			if sf.PkgPath != "" {
				continue
			}
			if sf.Anonymous && sf.Type.Kind() == reflect.Ptr {
				// a nullable EMBEDDED message is the one pointer the converters write through (its excluded
				// fields must survive): if it shared memory with another field that is written in place, two
				// attributes would be backed by one location and no converter could satisfy both. Not aliased.
				if !v.Field(i).IsNil() {
					collectAliasSites(v.Field(i).Elem(), name+"."+sf.Name, depth+1, ptrs, map[reflect.Type][]aliasSite{}, slices)
				}
				continue
			}
			collectAliasSites(v.Field(i), name+"."+sf.Name, depth+1, ptrs, vals, slices)
		}
	case reflect.Ptr:
		if v.Type().Elem().Kind() != reflect.Struct {
			return
		}
		if v.CanSet() {
			ptrs[v.Type()] = append(ptrs[v.Type()], aliasSite{v, name})
		}
		if !v.IsNil() {
			collectAliasSites(v.Elem(), name, depth, ptrs, vals, slices) // same depth: the pointee is not a sibling value
		}
	case reflect.Interface:
		if !v.IsNil() && v.Elem().Kind() == reflect.Ptr && !v.Elem().IsNil() {
			// a oneof wrapper: its payload field can be aliased, the wrapper itself is left alone
			w := v.Elem().Elem()
			if w.Kind() == reflect.Struct && w.NumField() == 1 {
				collectAliasSites(w.Field(0), name+"."+w.Type().Field(0).Name, depth+1, ptrs, vals, slices)
			}
		}
	case reflect.Slice:
		if v.CanSet() && v.Len() > 0 && v.Type().Elem().Kind() != reflect.Uint8 {
			slices[v.Type()] = append(slices[v.Type()], aliasSite{v, name})
		}
		for i := 0; i < v.Len() && i < 3; i++ {
			collectAliasSites(v.Index(i), fmt.Sprintf("%s[%d]", name, i), depth+1, ptrs, vals, slices)
		}
	}
}

// aliasInto introduces up to three aliases into the struct rv (the prior contents of a target).
func aliasInto(t *rapid.T, view *spec.Node, rv reflect.Value, label string) []string {
	if !coin(t, 1, 3, label+"/alias") {
		return nil
	}
	ptrs, vals, slices := map[reflect.Type][]aliasSite{}, map[reflect.Type][]aliasSite{}, map[reflect.Type][]aliasSite{}
	collectAliasSites(rv, "", 0, ptrs, vals, slices)
	// an excluded field is never the destination of an alias: it would then share memory with a described
	// field, and "left untouched" could not hold for its pointee whatever the converter does
	excl := map[string]bool{}
	var walkExcl func(n *spec.Node, depth int)
	walkExcl = func(n *spec.Node, depth int) {
		if n == nil || depth > 8 {
			return
		}
		for _, x := range n.Excluded {
			excl[x.Go] = true
		}
		for _, e := range n.Entries {
			walkExcl(e.Child, depth+1)
		}
	}
	walkExcl(view, 0)
	lastName := func(name string) string {
		if i := strings.LastIndex(name, "."); i >= 0 {
			name = name[i+1:]
		}
		if i := strings.Index(name, "["); i >= 0 {
			name = name[:i]
		}
		return name
	}
	for _, m := range []map[reflect.Type][]aliasSite{ptrs, slices} {
		for k, sites := range m {
			var keep []aliasSite
			for _, st := range sites {
				if !excl[lastName(st.name)] {
					keep = append(keep, st)
				}
			}
			m[k] = keep
		}
	}
	type cand struct {
		dst  aliasSite
		src  reflect.Value
		what string
	}
	var cands []cand
	typeNames := func(m map[reflect.Type][]aliasSite) []reflect.Type {
		ts := make([]reflect.Type, 0, len(m))
		for k := range m {
			ts = append(ts, k)
		}
		sort.Slice(ts, func(i, j int) bool { return ts[i].String() < ts[j].String() })
		return ts
	}
	for _, pt := range typeNames(ptrs) {
		ps := ptrs[pt]
		for i := range ps {
			for j := range ps {
				if i != j && !ps[i].v.IsNil() && len(cands) < 200 {
					cands = append(cands, cand{ps[j], ps[i].v, ps[j].name + " = " + ps[i].name + " (same pointer)"})
				}
			}
			for _, vs := range vals[pt.Elem()] {
				if len(cands) < 200 {
					cands = append(cands, cand{ps[i], vs.v.Addr(), ps[i].name + " = &" + vs.name})
				}
			}
		}
	}
	for _, st := range typeNames(slices) {
		ss := slices[st]
		for i := range ss {
			for j := range ss {
				if i != j && len(cands) < 240 {
					cands = append(cands, cand{ss[j], ss[i].v, ss[j].name + " = " + ss[i].name + " (same backing array)"})
				}
			}
		}
	}
	if len(cands) == 0 {
		return nil
	}
	var done []string
	n := rapid.IntRange(1, 3).Draw(t, label+"/naliases")
	for i := 0; i < n; i++ {
		c := cands[rapid.IntRange(0, len(cands)-1).Draw(t, fmt.Sprintf("%s/alias%d", label, i))]
		if !c.dst.v.CanSet() || !c.src.IsValid() {
			continue
		}
		c.dst.v.Set(c.src)
		done = append(done, c.what)
	}
	st.probe("aliased-prior-contents")
	return done
}
