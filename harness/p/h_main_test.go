package p

// convsim harness, part 5: entry point, statistics, known-finding handling.

import (
	"encoding/json"
	"fmt"
	"os"
	"sort"
	"strings"
	"sync"
	"testing"

	"pgregory.net/rapid"

	"scratch/spec"
)

type stats struct {
	mu         sync.Mutex
	Iterations int            `json:"iterations"`
	Ops        map[string]int `json:"ops"`
	Faults     map[string]int `json:"faults_fired"`
	Probes     map[string]int `json:"probes"`
	Classes    map[string]int `json:"-"`
	NClasses   int            `json:"distinct_history_classes"`
	KnownHits  map[string]int `json:"known_hits"`
	Samples    []string       `json:"samples"`
	Roots      []string       `json:"roots"`
	Digest     uint64         `json:"history_digest"` // order-sensitive hash of every history line (determinism self-test)
}

var st = &stats{Ops: map[string]int{}, Faults: map[string]int{}, Probes: map[string]int{}, Classes: map[string]int{}, KnownHits: map[string]int{}}

func (s *stats) op(k string)    { s.mu.Lock(); s.Ops[k]++; s.mu.Unlock() }
func (s *stats) fault(k string) { s.mu.Lock(); s.Faults[k]++; s.mu.Unlock() }
func (s *stats) probe(k string) { s.mu.Lock(); s.Probes[k]++; s.mu.Unlock() }

// history is the per-iteration log: op lines (for samples / classes) built without touching rapid.
type history struct {
	root  string
	lines []string
	kinds []string
}

func (h *history) add(kind, detail string) {
	h.kinds = append(h.kinds, kind)
	if len(detail) > 300 {
		detail = detail[:300] + "…"
	}
	h.lines = append(h.lines, kind+" "+detail)
	st.op(kind)
}

func (h *history) finish() {
	st.mu.Lock()
	defer st.mu.Unlock()
	st.Iterations++
	for _, l := range h.lines {
		for i := 0; i < len(l); i++ {
			st.Digest = (st.Digest ^ uint64(l[i])) * 1099511628211
		}
		st.Digest = (st.Digest ^ 0xff) * 1099511628211
	}
	st.Classes[h.root+":"+strings.Join(h.kinds, ",")]++
	if len(st.Samples) < 6 && len(h.lines) > 1 {
		st.Samples = append(st.Samples, h.root+": "+strings.Join(h.lines, " ; "))
	}
}

var known = map[string]bool{}

func loadKnown() {
	p := os.Getenv("VERIF_KNOWN")
	if p == "" {
		return
	}
	b, err := os.ReadFile(p)
	if err != nil {
		return
	}
	var l []string
	if json.Unmarshal(b, &l) == nil {
		for _, s := range l {
			known[s] = true
		}
	}
}

// stopHistory is panicked (and recovered by the property wrapper) when a listed known finding is
// met: the rest of the history runs on a diverged state and is not checked.
type stopHistory struct{}

// violate reports a violation with a stable signature. Details go to the log so that rapid's
// shrinking (which compares messages) is not disturbed.
func violate(t *rapid.T, sig string, format string, a ...interface{}) {
	if known[sig] {
		st.mu.Lock()
		st.KnownHits[sig]++
		st.mu.Unlock()
		panic(stopHistory{})
	}
	t.Logf("VIOLATION-DETAIL %s: %s", sig, fmt.Sprintf(format, a...))
	t.Fatalf("SIGNATURE %s", sig)
}

// wrap runs a property body, swallowing stopHistory.
func wrap(body func(t *rapid.T)) func(t *rapid.T) {
	return func(t *rapid.T) {
		// the order of every map iteration inside the generated converters is a rapid draw
		VerifSimOrder = func(site string, n int) (int, bool) {
			x := rapid.IntRange(0, 2*n-1).Draw(t, "maporder")
			return x % n, x >= n
		}
		defer func() { VerifSimOrder = nil }()
		defer func() {
			if r := recover(); r != nil {
				if _, ok := r.(stopHistory); ok {
					return
				}
				panic(r)
			}
		}()
		body(t)
	}
}

// shapeClass describes the entry reached by an attribute path such as ".nested.items[0].str".
func shapeClass(n *spec.Node, path string) string {
	var parts []string
	cur := n
	inElem := false
	var last *spec.Entry
	for _, seg := range strings.Split(strings.TrimPrefix(path, "."), ".") {
		if seg == "" || cur == nil {
			break
		}
		name := seg
		idx := strings.IndexByte(seg, '[')
		if idx >= 0 {
			name = seg[:idx]
		}
		e := cur.ByAttr(name)
		if e == nil {
			break
		}
		last = e
		if idx >= 0 {
			inElem = true
		}
		cur = e.Child
	}
	if last == nil {
		return "root"
	}
	return entryClass(last, inElem, len(parts))
}

func entryClass(e *spec.Entry, inElem bool, _ int) string {
	if e.Placeholder {
		return "placeholder"
	}
	k := e.F.Kind
	switch {
	case e.F.Kind == spec.KMessage:
		k = "message"
		if len(e.Child.Msg.Fields) == 0 {
			k = "empty-message"
		}
	case e.F.IsTemporal():
		k = "temporal"
	case e.F.Kind == spec.KBytes:
		k = "bytes"
	case e.F.Kind == spec.KString:
		k = "string"
	case e.F.Kind == spec.KBool:
		k = "bool"
	case e.F.Kind == spec.KEnum:
		k = "enum"
	case e.F.Kind == spec.KDouble || e.F.Kind == spec.KFloat:
		k = "float"
	default:
		k = "int"
	}
	s := k
	switch e.F.Card {
	case spec.CardList:
		s = "list<" + k + ">"
	case spec.CardMap:
		s = "map<" + k + ">"
	default:
		if e.F.Nullable && e.F.Kind != spec.KMessage {
			s = "*" + k
		}
		if e.F.Nullable && e.F.Kind == spec.KMessage {
			s = "*message"
			if len(e.Child.Msg.Fields) == 0 {
				s = "*empty-message"
			}
		}
	}
	if e.F.Oneof != "" {
		s += "/oneof"
	}
	for _, v := range e.Via {
		if v.Nullable {
			s += "/under-nullable-embed"
		} else {
			s += "/under-embed"
		}
	}
	if inElem {
		s += "@elem"
	}
	return s
}

func TestConv(t *testing.T) {
	if err := loadProgram(); err != nil {
		t.Fatalf("HARNESS %v", err)
	}
	loadKnown()
	prop := os.Getenv("VERIF_PROP")
	var roots []string
	if r := os.Getenv("VERIF_ROOTS"); r != "" {
		roots = strings.Split(r, ",")
	} else {
		for name := range rootEnvs {
			roots = append(roots, name)
		}
	}
	sort.Strings(roots)
	st.Roots = roots
	defer writeStats()
	for _, name := range roots {
		re := rootEnvs[name]
		if re == nil {
			t.Fatalf("HARNESS unknown root %s", name)
		}
		var body func(*rapid.T)
		switch prop {
		case "C05":
			body = propC05(re)
		case "C06":
			body = propC06(re)
		case "C07":
			if len(allOneofs(re.view)) == 0 {
				continue
			}
			body = propC07(re)
		case "C08":
			body = propC08(re)
		case "C09":
			body = propC09(re)
		default:
			t.Fatalf("HARNESS unknown property %q", prop)
		}
		t.Run(name, rapid.MakeCheck(wrap(body)))
	}
}

func writeStats() {
	st.mu.Lock()
	defer st.mu.Unlock()
	st.NClasses = len(st.Classes)
	st.Probes["generated-code-map-iterations-with->=2-keys"] = VerifSimMapRanges
	if p := os.Getenv("VERIF_OUT"); p != "" {
		b, _ := json.MarshalIndent(st, "", " ")
		_ = os.WriteFile(p, b, 0o644)
	}
}

// allOneofs lists every oneof holder reachable in the view (for gating C07).
func allOneofs(n *spec.Node) []spec.OneofRef {
	r := append([]spec.OneofRef{}, n.Oneofs...)
	for _, e := range n.Entries {
		if e.Child != nil {
			r = append(r, allOneofs(e.Child)...)
		}
	}
	return r
}
