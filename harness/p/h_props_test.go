package p

// convsim harness, part 4: the simulated resource lifecycle — operation histories on long-lived
// objects/structs and the oracles of C05, C07, C08, C09 (C06 lives in h_c06_test.go).

import (
	"fmt"
	"math"
	"reflect"
	"sort"
	"strings"
	"time"

	"github.com/hashicorp/terraform-plugin-framework/attr"
	"github.com/hashicorp/terraform-plugin-framework/types"
	"github.com/hashicorp/terraform-plugin-go/tftypes"
	"pgregory.net/rapid"

	"scratch/spec"
)

func maxSteps() int {
	if v := envInt("VERIF_STEPS", 0); v > 0 {
		return v
	}
	return 8
}

func envInt(k string, d int) int {
	var n int
	if _, err := fmt.Sscanf(getenv(k), "%d", &n); err == nil {
		return n
	}
	return d
}

// ---------------------------------------------------------------------------------------------
// converter calls with panic capture

func (re *rootEnv) copyTo(t *rapid.T, prop string, src interface{}, o *types.Object, h *history) {
	var errs []string
	p := safely(func() { errs = errorDiags(re.fn.To(ctx, src, o)) })
	if p != "" {
		violate(t, prop+"/no-panic/copy-to/"+panicClass(re.view), "CopyTo panicked: %s\nhistory: %s", p, strings.Join(h.lines, " ; "))
	}
	if len(errs) > 0 {
		violate(t, prop+"/no-error/copy-to", "CopyTo returned error diagnostics %v\nhistory: %s", errs, strings.Join(h.lines, " ; "))
	}
}

func (re *rootEnv) copyFrom(t *rapid.T, prop string, o types.Object, dst interface{}, h *history) {
	var errs []string
	p := safely(func() { errs = errorDiags(re.fn.From(ctx, o, dst)) })
	if p != "" {
		violate(t, prop+"/no-panic/copy-from/"+panicClass(re.view), "CopyFrom panicked: %s\nhistory: %s", p, strings.Join(h.lines, " ; "))
	}
	if len(errs) > 0 {
		violate(t, prop+"/no-error/copy-from", "CopyFrom returned error diagnostics %v\nhistory: %s", errs, strings.Join(h.lines, " ; "))
	}
}

// panicClass names the one shape on which both converters are known to crash (a nullable embedded
// message with list, map, message or oneof children); every other shape is "other".
func panicClass(n *spec.Node) string {
	for _, e := range n.Entries {
		if e.Placeholder {
			continue
		}
		if hasNullableVia(e.Via) && (e.F.Card != "" || e.F.Kind == spec.KMessage || e.F.Oneof != "") {
			return "nullable-embed-with-nonscalar-children"
		}
		if e.Child != nil {
			if c := panicClass(e.Child); c != "other" {
				return c
			}
		}
	}
	return "other"
}

func (re *rootEnv) mustTF(t *rapid.T, prop string, o types.Object, h *history) tftypes.Value {
	v, err := re.tfOf(o)
	if err != nil {
		violate(t, prop+"/schema-conformant", "object does not convert to a Terraform value of the schema type: %v\nhistory: %s", err, strings.Join(h.lines, " ; "))
	}
	return v
}

func attrsOf(v tftypes.Value) map[string]tftypes.Value {
	var m map[string]tftypes.Value
	if present(v) {
		must(v.As(&m))
	}
	return m
}

// firstUnknown returns the path of the first unknown value below v ("" if fully known), skipping
// the named root attributes.
func firstUnknown(v tftypes.Value, path string, skip map[string]bool) string {
	if !v.IsKnown() {
		return path
	}
	if v.IsNull() {
		return ""
	}
	t := v.Type()
	switch {
	case t.Is(tftypes.Object{}), t.Is(tftypes.Map{}):
		var m map[string]tftypes.Value
		must(v.As(&m))
		ks := make([]string, 0, len(m))
		for k := range m {
			ks = append(ks, k)
		}
		sort.Strings(ks)
		for _, k := range ks {
			if path == "" && skip[k] {
				continue
			}
			if p := firstUnknown(m[k], path+"."+k, nil); p != "" {
				return p
			}
		}
	case t.Is(tftypes.List{}):
		var l []tftypes.Value
		must(v.As(&l))
		for i, e := range l {
			if p := firstUnknown(e, fmt.Sprintf("%s[%d]", path, i), nil); p != "" {
				return p
			}
		}
	}
	return ""
}

// partial regeneration: some fields of a copy of prev are redrawn (transitions: collections grow,
// shrink, become nil; pointers toggle).
func mutateStruct(t *rapid.T, re *rootEnv, prev interface{}, label string) interface{} {
	c := deepCopyStruct(prev)
	mutateInto(t, re.view, reflect.ValueOf(c).Elem(), 0, label)
	return c
}

func mutateInto(t *rapid.T, n *spec.Node, rv reflect.Value, depth int, label string) {
	// oneof groups: redraw the whole node with probability 1/4 (simplest way to move branches)
	if len(n.Oneofs) > 0 && coin(t, 1, 4, label+"/reoneof") {
		genInto(t, n, rv, depth, label)
		return
	}
	for _, e := range n.Entries {
		if e.Placeholder || e.F.Oneof != "" {
			continue
		}
		h := holderOf(rv, e.Via, false)
		if !h.IsValid() {
			if coin(t, 1, 3, label+"/revive:"+e.Go) {
				h = holderOf(rv, e.Via, true)
			} else {
				continue
			}
		}
		fv := h.FieldByName(e.Go)
		l := label + "." + e.Go
		switch rapid.IntRange(0, 3).Draw(t, l+"/mut") {
		case 0: // redraw
			genField(t, e, fv, depth, l)
		case 1: // shrink / clear collections, nil pointers
			switch fv.Kind() {
			case reflect.Slice:
				if e.F.Kind == spec.KBytes && e.F.Card == "" {
					fv.Set(reflect.Zero(fv.Type()))
				} else if fv.Len() > 0 && coin(t, 1, 2, l+"/shrink") {
					fv.Set(fv.Slice(0, fv.Len()-1))
				} else if coin(t, 1, 2, l+"/empty") {
					fv.Set(reflect.MakeSlice(fv.Type(), 0, 0))
				} else {
					fv.Set(reflect.Zero(fv.Type()))
				}
			case reflect.Map:
				if fv.Len() > 0 && coin(t, 1, 2, l+"/dropkey") {
					keys := fv.MapKeys()
					sort.Slice(keys, func(i, j int) bool { return keys[i].String() < keys[j].String() })
					fv.SetMapIndex(keys[rapid.IntRange(0, len(keys)-1).Draw(t, l+"/which")], reflect.Value{})
				} else if coin(t, 1, 2, l+"/empty") {
					fv.Set(reflect.MakeMap(fv.Type()))
				} else {
					fv.Set(reflect.Zero(fv.Type()))
				}
			case reflect.Ptr:
				fv.Set(reflect.Zero(fv.Type()))
			}
		case 2: // descend into a singular message
			if e.F.Kind == spec.KMessage && e.F.Card == "" {
				if fv.Kind() == reflect.Ptr {
					if fv.IsNil() {
						fv.Set(reflect.New(fv.Type().Elem()))
					}
					mutateInto(t, e.Child, fv.Elem(), depth+1, l)
				} else {
					mutateInto(t, e.Child, fv, depth+1, l)
				}
			}
		default: // keep
		}
	}
}

func describeStruct(re *rootEnv, p interface{}) string {
	return fmt.Sprintf("%v", re.nf(p))
}

// ---------------------------------------------------------------------------------------------
// C09 — refresh: sequences of in-place CopyTo on one long-lived object

func propC09(re *rootEnv) func(*rapid.T) {
	return func(t *rapid.T) {
		h := &history{root: re.name}
		defer h.finish()
		O := re.emptyObject()
		src := genStruct(t, re, "src0")
		h.add("Write", describeStruct(re, src))
		re.copyTo(t, "C09", src, &O, h)
		cur := re.mustTF(t, "C09", O, h)
		steps := rapid.IntRange(1, maxSteps()).Draw(t, "steps")
		for i := 0; i < steps; i++ {
			switch rapid.IntRange(0, 9).Draw(t, fmt.Sprintf("op%d", i)) {
			case 0: // Repeat
				h.add("Repeat", "")
				re.copyTo(t, "C09", src, &O, h)
				after := re.mustTF(t, "C09", O, h)
				if !after.Equal(cur) {
					violate(t, "C09/idempotent", "repeating the same CopyTo changed the object:\nbefore %s\nafter  %s\nhistory: %s",
						tfString(cur), tfString(after), strings.Join(h.lines, " ; "))
				}
			default:
				if rapid.IntRange(0, 2).Draw(t, fmt.Sprintf("fresh%d", i)) == 0 {
					src = genStruct(t, re, fmt.Sprintf("src%d", i+1))
				} else {
					src = mutateStruct(t, re, src, fmt.Sprintf("mut%d", i+1))
				}
				h.add("Write", describeStruct(re, src))
				before := cur
				re.copyTo(t, "C09", src, &O, h)
				cur = re.mustTF(t, "C09", O, h)
				if p := firstUnknown(cur, "", re.injected); p != "" {
					violate(t, "C09/nothing-unknown", "unknown value at %s after CopyTo", p)
				}
				c09Walk(t, re, re.view, reflect.ValueOf(src).Elem(), before, cur, "", h)
				// "takes the source's value" at the level Terraform sees: a time that was non-null is rendered like
				// a fresh copy of the same source renders it (same instant in another zone is another string)
				F := re.emptyObject()
				var ferrs []string
				if p := safely(func() { ferrs = errorDiags(re.fn.To(ctx, src, &F)) }); p == "" && len(ferrs) == 0 {
					if fv, err := re.tfOf(F); err == nil {
						c09Rendering(t, re.view, before, cur, fv, "", h)
					}
				}
			}
		}
	}
}

// c09Walk compares the object after an in-place write with the source, attribute by attribute,
// asserting only what C09 states.
func c09Walk(t *rapid.T, re *rootEnv, n *spec.Node, src reflect.Value, before, after tftypes.Value, path string, h *history) {
	am, bm := attrsOf(after), attrsOf(before)
	fail := func(clause string, e *spec.Entry, p string, format string, a ...interface{}) {
		violate(t, "C09/"+clause+"/"+entryClass(e, false, 0), "at %s: %s\nhistory: %s", p, fmt.Sprintf(format, a...), strings.Join(h.lines, " ; "))
	}
	for _, e := range n.Entries {
		if e.Placeholder {
			continue
		}
		p := path + "." + e.Attr
		a, ok := am[e.Attr]
		if !ok {
			fail("attribute-present", e, p, "attribute missing after CopyTo")
		}
		b := bm[e.Attr]
		hd := holderOf(src, e.Via, false)
		if !hd.IsValid() {
			// child of a nil nullable embedded message: the source holds the zero value for it, so an
			// attribute that was non-null must not keep its old value (null, or decoding to zero / empty)
			if present(b) && present(a) {
				scratch := reflect.New(src.Type()).Elem()
				zh := holderOf(scratch, e.Via, true)
				zf := zh.FieldByName(e.Go)
				if zf.IsValid() && e.F.Oneof == "" {
					var got interface{}
					switch {
					case e.F.Card != "":
						if c := nfCollection(e, refElemCollection(e, a, zf.Type())); !emptyNF(c) {
							got = c
						}
					case e.F.Kind == spec.KMessage:
						got = nil // a message child may be rendered as an object of nulls
					case e.F.Kind == spec.KTime && zf.Kind() != reflect.Ptr:
						got = nil // by-value time is always rendered
					default:
						got = nfScalar(e.F, refElem(e, a, zf.Type()))
					}
					if got != nil {
						fail("embedded-nil-follows-source", e, p, "the embedded message is nil in the source but the attribute keeps %s (before: %s)", tfString(a), tfString(b))
					}
				}
			}
			continue
		}
		var fv reflect.Value
		if e.F.Oneof != "" {
			hf := hd.FieldByName(spec.CamelCase(e.F.Oneof))
			if hf.IsNil() || hf.Elem().Type() != oneofWrapper(hd, e.Go) {
				// inactive branch: the source holds nothing for it. An attribute that was non-null must not
				// keep its old value: it is null or decodes to the zero value (which reads back as "unset")
				if present(b) && e.F.Card == "" {
					if e.F.Kind == spec.KMessage {
						if present(a) {
							fail("inactive-branch-follows-source", e, p, "branch is not selected in the source but the attribute is still %s (before: %s)", tfString(a), tfString(b))
						}
					} else if present(a) && !(e.F.Kind == spec.KTime && false) {
						wt := oneofWrapper(hd, e.Go)
						pt := wt.Elem().Field(0).Type
						dec := refElem(e, a, pt)
						if pt.Kind() == reflect.Ptr {
							fail("inactive-branch-follows-source", e, p, "pointer-backed branch is not selected in the source but the attribute is %s", tfString(a))
						} else if nfScalarValue(e.F, dec, false) != nil && e.F.Kind != spec.KTime {
							fail("inactive-branch-follows-source", e, p, "branch is not selected in the source but the attribute keeps %s (before: %s)", tfString(a), tfString(b))
						}
					}
				}
				continue
			}
			fv = hf.Elem().Elem().Field(0)
		} else {
			fv = hd.FieldByName(e.Go)
		}
		switch {
		case e.F.Card == spec.CardList || e.F.Card == spec.CardMap:
			if a.IsNull() {
				if fv.Len() != 0 {
					fail("collection-follows-source", e, p, "attribute is null but the source has %d entries", fv.Len())
				}
				continue
			}
			dec := refElemCollection(e, a, fv.Type())
			want := nfCollection(e, fv)
			got := nfCollection(e, dec)
			if d := nfDiff(got, want, p); d != "" {
				fail("collection-follows-source", e, p, "object vs source: %s (before: %s)", d, tfString(b))
			}
		case e.F.Kind == spec.KMessage:
			if fv.Kind() == reflect.Ptr && fv.IsNil() {
				if !a.IsNull() {
					fail("nil-message-becomes-null", e, p, "source message is nil but the attribute is %s", tfString(a))
				}
				continue
			}
			if !present(a) {
				continue // nil -> non-nil on a null object: the statement is silent
			}
			sv := fv
			if sv.Kind() == reflect.Ptr {
				sv = sv.Elem()
			}
			c09Walk(t, re, e.Child, sv, b, a, p, h)
		case fv.Kind() == reflect.Ptr: // nullable time / duration
			if a.IsNull() != fv.IsNil() {
				fail("pointer-null-iff-nil", e, p, "attribute null=%v but source pointer nil=%v", a.IsNull(), fv.IsNil())
			}
			if !fv.IsNil() {
				got := nfScalarValue(e.F, refElem(e, a, fv.Type()).Elem(), true)
				want := nfScalarValue(e.F, fv.Elem(), true)
				if !reflect.DeepEqual(got, want) {
					fail("scalar-follows-source", e, p, "attribute %v, source %v", got, want)
				}
			}
		default:
			if !present(b) {
				continue // was null (or absent) before: the statement is silent
			}
			got := nfScalarValue(e.F, refElem(e, a, fv.Type()), true)
			want := nfScalarValue(e.F, fv, true)
			if !reflect.DeepEqual(got, want) {
				fail("scalar-follows-source", e, p, "attribute %s decodes to %v, source has %v (before: %s)", tfString(a), got, want, tfString(b))
			}
		}
	}
}

func emptyNF(x interface{}) bool {
	switch v := x.(type) {
	case []interface{}:
		return len(v) == 0
	case map[string]interface{}:
		return len(v) == 0
	}
	return x == nil
}

// refElemCollection decodes a known non-null list/map attribute into a Go value of type typ.
func refElemCollection(e *spec.Entry, v tftypes.Value, typ reflect.Type) reflect.Value {
	if e.F.Card == spec.CardList {
		var els []tftypes.Value
		must(v.As(&els))
		s := reflect.MakeSlice(typ, len(els), len(els))
		for i, el := range els {
			s.Index(i).Set(refElem(e, el, typ.Elem()))
		}
		return s
	}
	var els map[string]tftypes.Value
	must(v.As(&els))
	mp := reflect.MakeMapWithSize(typ, len(els))
	for k, el := range els {
		mp.SetMapIndex(reflect.ValueOf(k), refElem(e, el, typ.Elem()))
	}
	return mp
}

func nfCollection(e *spec.Entry, fv reflect.Value) interface{} {
	if e.F.Card == spec.CardList {
		l := make([]interface{}, fv.Len())
		for i := range l {
			l[i] = nfElem(e, fv.Index(i), true)
		}
		return l
	}
	mp := map[string]interface{}{}
	it := fv.MapRange()
	for it.Next() {
		mp[it.Key().String()] = nfElem(e, it.Value(), true)
	}
	return mp
}

// ---------------------------------------------------------------------------------------------
// C05 — null/unknown reset a long-lived target; payload under null/unknown is ignored

// knownValueOf builds a fully known value of an attribute type (used as hidden payload).
func knownValueOf(typ attr.Type) attr.Value {
	switch x := typ.(type) {
	case types.ObjectType:
		o := types.Object{AttrTypes: x.AttrTypes, Attrs: map[string]attr.Value{}}
		for k, at := range x.AttrTypes {
			o.Attrs[k] = knownValueOf(at)
		}
		return o
	case types.ListType:
		return types.List{ElemType: x.ElemType, Elems: []attr.Value{knownValueOf(x.ElemType), knownValueOf(x.ElemType)}}
	case types.MapType:
		return types.Map{ElemType: x.ElemType, Elems: map[string]attr.Value{"ghost": knownValueOf(x.ElemType)}}
	case SimTimeType:
		return SimTimeValue{Value: time.Unix(1234567, 89).UTC()}
	case SimDurationType:
		return SimDurationValue{Value: 77 * time.Second}
	case simInt32T:
		return SimInt32Value{Value: 33}
	}
	switch typ {
	case types.StringType:
		return types.String{Value: "ghost"}
	case types.Int64Type:
		return types.Int64{Value: 7}
	case types.Float64Type:
		return types.Float64{Value: 1.5}
	case types.BoolType:
		return types.Bool{Value: true}
	}
	panic(fmt.Sprintf("harness: knownValueOf(%T)", typ))
}

// withPayload returns a twin of v that stands for the same Terraform value but carries payload
// under every null / unknown value.
func withPayload(v attr.Value, typ attr.Type) attr.Value {
	hide := func(null, unknown bool) attr.Value {
		k := knownValueOf(typ)
		switch x := k.(type) {
		case types.Object:
			x.Null, x.Unknown = null, unknown
			return x
		case types.List:
			x.Null, x.Unknown = null, unknown
			return x
		case types.Map:
			x.Null, x.Unknown = null, unknown
			return x
		case types.String:
			x.Null, x.Unknown = null, unknown
			return x
		case types.Int64:
			x.Null, x.Unknown = null, unknown
			return x
		case types.Float64:
			x.Null, x.Unknown = null, unknown
			return x
		case types.Bool:
			x.Null, x.Unknown = null, unknown
			return x
		case SimTimeValue:
			x.Null, x.Unknown = null, unknown
			return x
		case SimDurationValue:
			x.Null, x.Unknown = null, unknown
			return x
		case SimInt32Value:
			x.Null, x.Unknown = null, unknown
			return x
		}
		return v
	}
	if v.IsNull() || v.IsUnknown() {
		return hide(v.IsNull(), v.IsUnknown())
	}
	switch x := v.(type) {
	case types.Object:
		c := x
		c.Attrs = make(map[string]attr.Value, len(x.Attrs))
		for k, a := range x.Attrs {
			c.Attrs[k] = withPayload(a, x.AttrTypes[k])
		}
		return c
	case types.List:
		c := x
		c.Elems = make([]attr.Value, len(x.Elems))
		for i, a := range x.Elems {
			c.Elems[i] = withPayload(a, x.ElemType)
		}
		return c
	case types.Map:
		c := x
		c.Elems = make(map[string]attr.Value, len(x.Elems))
		for k, a := range x.Elems {
			c.Elems[k] = withPayload(a, x.ElemType)
		}
		return c
	}
	return v
}

// c05ZeroWalk: every null or unknown attribute (and collection element) leaves its field at the
// zero value. nf is the normal form of the struct (zero / nil / empty are absent there).
func c05ZeroWalk(t *rapid.T, re *rootEnv, n *spec.Node, nf map[string]interface{}, obj tftypes.Value, path string, h *history) {
	m := attrsOf(obj)
	bad := func(e *spec.Entry, p string, inElem bool, got interface{}) {
		violate(t, "C05/null-unknown-zero/"+entryClass(e, inElem, 0), "at %s: attribute is null/unknown but the field holds %s\nsource %s\nhistory: %s",
			p, brief(got), tfString(obj), strings.Join(h.lines, " ; "))
	}
	zeroElem := func(x interface{}) bool {
		switch v := x.(type) {
		case nil:
			return true
		case map[string]interface{}:
			return zeroNF(v)
		case string:
			return v == "" || v == "0001-01-01T00:00:00Z"
		case int64:
			return v == 0
		case uint64:
			return v == 0
		case float64:
			return v == 0
		case bool:
			return !v
		}
		return false
	}
	for _, e := range n.Entries {
		if e.Placeholder {
			continue
		}
		p := path + "." + e.Attr
		v := m[e.Attr]
		got, has := nf[e.Attr]
		if !present(v) {
			if has && !(e.F.Kind == spec.KMessage && e.F.Card == "" && !e.F.Nullable && zeroNF(got)) && !(e.F.Kind == spec.KTime && e.F.Card == "" && !e.F.Nullable && zeroElem(got)) {
				bad(e, p, false, got)
			}
			continue
		}
		if e.Child == nil || !has {
			if has && e.F.Card != "" {
				// known collection of scalars: null/unknown elements are zero
				c05Elems(e, v, got, func(i string, x interface{}) {
					if !zeroElem(x) {
						bad(e, p+"["+i+"]", true, x)
					}
				}, nil)
			}
			continue
		}
		switch e.F.Card {
		case "":
			if sub, ok := got.(map[string]interface{}); ok {
				c05ZeroWalk(t, re, e.Child, sub, v, p, h)
			}
		default:
			c05Elems(e, v, got, func(i string, x interface{}) {
				if !zeroElem(x) {
					bad(e, p+"["+i+"]", true, x)
				}
			}, func(i string, x interface{}, ev tftypes.Value) {
				if sub, ok := x.(map[string]interface{}); ok {
					c05ZeroWalk(t, re, e.Child, sub, ev, p+"["+i+"]", h)
				}
			})
		}
	}
}

func sortedKeysTF(m map[string]tftypes.Value) []string {
	ks := make([]string, 0, len(m))
	for k := range m {
		ks = append(ks, k)
	}
	sort.Strings(ks)
	return ks
}

// zeroNF reports whether a nested normal form is entirely zero.
func zeroNF(x interface{}) bool {
	m, ok := x.(map[string]interface{})
	if !ok {
		return x == nil || x == "0001-01-01T00:00:00Z"
	}
	for _, v := range m {
		if !zeroNF(v) {
			return false
		}
	}
	return true
}

// c05Elems pairs the elements of a known collection value with the elements of its normal form.
func c05Elems(e *spec.Entry, v tftypes.Value, got interface{}, absent func(string, interface{}), presentFn func(string, interface{}, tftypes.Value)) {
	if e.F.Card == spec.CardList {
		var els []tftypes.Value
		must(v.As(&els))
		l, _ := got.([]interface{})
		for i, el := range els {
			if i >= len(l) {
				break
			}
			if !present(el) {
				absent(fmt.Sprint(i), l[i])
			} else if presentFn != nil {
				presentFn(fmt.Sprint(i), l[i], el)
			}
		}
		return
	}
	var els map[string]tftypes.Value
	must(v.As(&els))
	mp, _ := got.(map[string]interface{})
	for _, k := range sortedKeysTF(els) {
		el := els[k]
		x, ok := mp[k]
		if !ok {
			continue
		}
		if !present(el) {
			absent(k, x)
		} else if presentFn != nil {
			presentFn(k, x, el)
		}
	}
}

// excludedSnapshot captures the excluded fields of a struct for bit-for-bit comparison.
func excludedSnapshot(n *spec.Node, rv reflect.Value, path string, out map[string]interface{}) {
	for _, x := range n.Excluded {
		h := holderOf(rv, x.Via, false)
		if !h.IsValid() {
			continue
		}
		f := h.FieldByName(x.Go)
		if f.IsValid() {
			out[path+"."+x.Go] = deepCopyValue(f).Interface()
		}
	}
}

func isEmptyValue(x interface{}) bool {
	v := reflect.ValueOf(x)
	if !v.IsValid() {
		return true
	}
	switch v.Kind() {
	case reflect.Slice, reflect.Map:
		return v.Len() == 0
	}
	return v.IsZero()
}

// source objects for Read
func (re *rootEnv) drawSource(t *rapid.T, prop string, label string, h *history) (types.Object, string) {
	switch rapid.IntRange(0, 4).Draw(t, label+"/srckind") {
	case 4: // the in-memory result of two in-place writes, not reduced to its durable form: it carries
		// whatever payload the writes left under null values
		O := re.emptyObject()
		re.copyTo(t, prop, genStruct(t, re, label+"/s0"), &O, h)
		re.copyTo(t, prop, genStruct(t, re, label+"/s1"), &O, h)
		st.probe("source-written-in-place")
		return O, "written-in-place"
	case 0: // restart of an object produced by CopyTo
		O := re.emptyObject()
		s := genStruct(t, re, label+"/s")
		re.copyTo(t, prop, s, &O, h)
		X, err := re.restart(O)
		if err != nil {
			violate(t, prop+"/schema-conformant", "restart of a written object failed: %v", err)
		}
		return X, "restart(write)"
	case 1:
		v := genTF(t, re, modeState, label+"/tf")
		X, err := re.decode(v)
		must(err)
		return X, "decode(state)"
	default:
		v := genTF(t, re, modeAny, label+"/tf")
		X, err := re.decode(v)
		must(err)
		return X, "decode(any)"
	}
}

func propC05(re *rootEnv) func(*rapid.T) {
	return func(t *rapid.T) {
		h := &history{root: re.name}
		defer h.finish()
		S := re.fn.New()
		steps := rapid.IntRange(1, maxSteps()).Draw(t, "steps")
		for i := 0; i < steps; i++ {
			if rapid.IntRange(0, 2).Draw(t, fmt.Sprintf("op%d", i)) == 0 {
				genInto(t, re.view, reflect.ValueOf(S).Elem(), 0, fmt.Sprintf("scribble%d", i))
				h.add("Scribble", describeStruct(re, S))
				if al := aliasInto(t, re.view, reflect.ValueOf(S).Elem(), fmt.Sprintf("scribble%d", i)); len(al) > 0 {
					h.add("Alias", strings.Join(al, ", "))
				}
				continue
			}
			X, kind := re.drawSource(t, "C05", fmt.Sprintf("x%d", i), h)
			tfX, err := re.tfOf(X)
			must(err)
			h.add("Read", kind+" "+tfString(tfX))
			prior := deepCopyStruct(S)
			exBefore := map[string]interface{}{}
			excludedSnapshot(re.view, reflect.ValueOf(S).Elem(), "", exBefore)

			re.copyFrom(t, "C05", X, S, h)
			got := re.nf(S)

			// reference model, restricted to what C05 states: null/unknown => zero / nil / empty
			c05ZeroWalk(t, re, re.view, got, tfX, "", h)
			// metamorphic: reused target == fresh target
			fresh := re.fn.New()
			re.copyFrom(t, "C05", X, fresh, h)
			if d := nfDiff(got, re.nf(fresh), ""); d != "" {
				violate(t, "C05/reused-equals-fresh/"+shapeClass(re.view, pathOfDiff(d)), "reused vs fresh target: %s\nhistory: %s", d, strings.Join(h.lines, " ; "))
			}
			// excluded fields untouched
			exAfter := map[string]interface{}{}
			excludedSnapshot(re.view, reflect.ValueOf(S).Elem(), "", exAfter)
			// a field that could not be observed on one side (its nullable embedded parent was nil) counts as zero
			for k, a := range exAfter {
				b, ok := exBefore[k]
				if !ok {
					b = reflect.Zero(reflect.TypeOf(a)).Interface()
				}
				if !reflect.DeepEqual(a, b) && !(isEmptyValue(a) && isEmptyValue(b)) {
					violate(t, "C05/excluded-untouched", "excluded field %s changed: before %v after %v\nhistory: %s", k, brief(b), brief(a), strings.Join(h.lines, " ; "))
				}
			}
			for k, b := range exBefore {
				if _, ok := exAfter[k]; !ok && !isEmptyValue(b) {
					violate(t, "C05/excluded-untouched", "excluded field %s was dropped with its embedded parent: before %v\nhistory: %s", k, brief(b), strings.Join(h.lines, " ; "))
				}
			}
			// payload independence: twin with payload under null/unknown, into a copy of the prior target
			twin := withPayload(cloneObject(X), re.objType).(types.Object)
			tfTwin, err := re.tfOf(twin)
			if err != nil || !tfTwin.Equal(tfX) {
				panic(fmt.Sprintf("harness: payload twin does not stand for the same value: %v", err))
			}
			st.probe("payload-twin")
			re.copyFrom(t, "C05", twin, prior, h)
			if d := nfDiff(re.nf(prior), got, ""); d != "" {
				violate(t, "C05/payload-independent/"+shapeClass(re.view, pathOfDiff(d)), "twin with hidden payload vs plain: %s\nsource %s\nhistory: %s", d, tfString(tfX), strings.Join(h.lines, " ; "))
			}
		}
	}
}

// ---------------------------------------------------------------------------------------------
// C07 — oneof groups stay exclusive

type oneofSite struct {
	node *spec.Node
	ref  spec.OneofRef
	br   []*spec.Entry
}

func branchesOf(n *spec.Node, o spec.OneofRef) []*spec.Entry {
	var br []*spec.Entry
	for _, e := range n.Entries {
		if e.F != nil && e.F.Oneof == o.Name && e.Decl == o.Decl && sameVia(e.Via, o.Via) {
			br = append(br, e)
		}
	}
	return br
}

// c07Walk checks every oneof holder of struct rv (decoded from obj) exactly — no normal form.
func c07Walk(t *rapid.T, re *rootEnv, n *spec.Node, rv reflect.Value, obj tftypes.Value, path string, strict bool, h *history) {
	m := attrsOf(obj)
	for _, o := range n.Oneofs {
		br := branchesOf(n, o)
		var active []*spec.Entry
		for _, e := range br {
			if present(m[e.Attr]) {
				active = append(active, e)
			}
		}
		hd := holderOf(rv, o.Via, false)
		cls := "oneof"
		for _, v := range o.Via {
			if v.Nullable {
				cls += "/under-nullable-embed"
			} else {
				cls += "/under-embed"
			}
		}
		if path != "" {
			cls += "@nested"
		}
		switch len(active) {
		case 0:
			st.probe("oneof-none-active")
			if hd.IsValid() {
				if hf := hd.FieldByName(o.Go); !hf.IsNil() {
					violate(t, "C07/holder-reset/"+cls, "at %s: all branches of %s are null/unknown but the holder is %T\nsource %s\nhistory: %s",
						path, o.Name, hf.Interface(), tfString(obj), strings.Join(h.lines, " ; "))
				}
			}
		case 1:
			st.probe("oneof-one-active")
			e := active[0]
			if !hd.IsValid() {
				violate(t, "C07/holder-holds-branch/"+cls, "at %s: branch %s is set but the embedded parent is nil", path, e.Attr)
			}
			hf := hd.FieldByName(o.Go)
			wt := oneofWrapper(hd, e.Go)
			if hf.IsNil() || hf.Elem().Type() != wt {
				violate(t, "C07/holder-holds-branch/"+cls, "at %s: branch %s=%s is the only known non-null branch but the holder is %v\nhistory: %s",
					path, e.Attr, tfString(m[e.Attr]), brief(hf.Interface()), strings.Join(h.lines, " ; "))
			}
			pf := hf.Elem().Elem().Field(0)
			if !strict && e.F.Kind == spec.KMessage {
				break // nested groups of the payload may have several active branches: checked per level below
			}
			want := refElem(e, m[e.Attr], pf.Type())
			if d := nfDiff(nfElem(e, pf, true), nfElem(e, want, true), path+"."+e.Attr); d != "" {
				violate(t, "C07/holder-holds-value/"+cls, "branch payload differs: %s\nhistory: %s", d, strings.Join(h.lines, " ; "))
			}
		default:
			st.probe("oneof-several-active")
		}
	}
	// descend
	for _, e := range n.Entries {
		if e.Child == nil || !present(m[e.Attr]) {
			continue
		}
		hd := holderOf(rv, e.Via, false)
		if !hd.IsValid() {
			continue
		}
		var fv reflect.Value
		if e.F.Oneof != "" {
			hf := hd.FieldByName(spec.CamelCase(e.F.Oneof))
			if hf.IsNil() || hf.Elem().Type() != oneofWrapper(hd, e.Go) {
				continue
			}
			fv = hf.Elem().Elem().Field(0)
		} else {
			fv = hd.FieldByName(e.Go)
		}
		p := path + "." + e.Attr
		switch e.F.Card {
		case spec.CardList:
			var els []tftypes.Value
			must(m[e.Attr].As(&els))
			for i := 0; i < fv.Len() && i < len(els); i++ {
				if ev := indirect(fv.Index(i)); ev.IsValid() && present(els[i]) {
					c07Walk(t, re, e.Child, ev, els[i], fmt.Sprintf("%s[%d]", p, i), strict, h)
				}
			}
		case spec.CardMap:
			var els map[string]tftypes.Value
			must(m[e.Attr].As(&els))
			for _, k := range sortedKeysTF(els) {
				el := els[k]
				mv := fv.MapIndex(reflect.ValueOf(k))
				if !mv.IsValid() || !present(el) {
					continue
				}
				// map values are not addressable: copy
				c := reflect.New(indirectType(mv.Type())).Elem()
				if iv := indirect(mv); iv.IsValid() {
					c.Set(iv)
					c07Walk(t, re, e.Child, c, el, p+"["+k+"]", strict, h)
				}
			}
		default:
			if ev := indirect(fv); ev.IsValid() {
				c07Walk(t, re, e.Child, ev, m[e.Attr], p, strict, h)
			}
		}
	}
}

func indirect(v reflect.Value) reflect.Value {
	if v.Kind() == reflect.Ptr {
		if v.IsNil() {
			return reflect.Value{}
		}
		return v.Elem()
	}
	return v
}

func indirectType(t reflect.Type) reflect.Type {
	if t.Kind() == reflect.Ptr {
		return t.Elem()
	}
	return t
}

// c07WriteWalk: after CopyTo into an empty object, inactive branches are null and the active one is
// non-null when its payload is non-zero.
func c07WriteWalk(t *rapid.T, re *rootEnv, n *spec.Node, rv reflect.Value, obj tftypes.Value, path string, h *history) {
	m := attrsOf(obj)
	for _, o := range n.Oneofs {
		hd := holderOf(rv, o.Via, false)
		if !hd.IsValid() {
			continue
		}
		hf := hd.FieldByName(o.Go)
		for _, e := range branchesOf(n, o) {
			a := m[e.Attr]
			active := !hf.IsNil() && hf.Elem().Type() == oneofWrapper(hd, e.Go)
			cls := entryClass(e, path != "", 0)
			if !active {
				if !a.IsNull() {
					violate(t, "C07/inactive-branch-null/"+cls, "at %s.%s: inactive branch rendered as %s\nhistory: %s", path, e.Attr, tfString(a), strings.Join(h.lines, " ; "))
				}
				continue
			}
			pf := hf.Elem().Elem().Field(0)
			if nfElem(e, pf, false) != nil && a.IsNull() {
				violate(t, "C07/active-branch-non-null/"+cls, "at %s.%s: active branch with non-zero payload rendered as null\nhistory: %s", path, e.Attr, strings.Join(h.lines, " ; "))
			}
		}
	}
	for _, e := range n.Entries {
		if e.Child == nil || e.F.Card != "" || !present(m[e.Attr]) || e.F.Oneof != "" {
			continue
		}
		hd := holderOf(rv, e.Via, false)
		if !hd.IsValid() {
			continue
		}
		if ev := indirect(hd.FieldByName(e.Go)); ev.IsValid() {
			c07WriteWalk(t, re, e.Child, ev, m[e.Attr], path+"."+e.Attr, h)
		}
	}
}

func propC07(re *rootEnv) func(*rapid.T) {
	return func(t *rapid.T) {
		h := &history{root: re.name}
		defer h.finish()
		S := re.fn.New()
		steps := rapid.IntRange(1, maxSteps()).Draw(t, "steps")
		for i := 0; i < steps; i++ {
			switch rapid.IntRange(0, 3).Draw(t, fmt.Sprintf("op%d", i)) {
			case 0:
				genInto(t, re.view, reflect.ValueOf(S).Elem(), 0, fmt.Sprintf("preset%d", i))
				h.add("Preset", describeStruct(re, S))
				if al := aliasInto(t, re.view, reflect.ValueOf(S).Elem(), fmt.Sprintf("preset%d", i)); len(al) > 0 {
					h.add("Alias", strings.Join(al, ", "))
				}
			case 1: // Write of any active branch / none into the empty object
				if coin(t, 1, 8, fmt.Sprintf("nan%d", i)) && c07NaNWrite(t, re, h, fmt.Sprintf("w%d", i)) {
					continue
				}
				src := genStruct(t, re, fmt.Sprintf("w%d", i))
				O := re.emptyObject()
				h.add("WriteEmpty", describeStruct(re, src))
				re.copyTo(t, "C07", src, &O, h)
				v := re.mustTF(t, "C07", O, h)
				c07WriteWalk(t, re, re.view, reflect.ValueOf(src).Elem(), v, "", h)
			default:
				mode := modeOneof // exactly one (or no) branch known and non-null: the holder is determined
				if rapid.IntRange(0, 4).Draw(t, fmt.Sprintf("several%d", i)) == 0 {
					mode = modeAny // several branches: only absence of panics is asserted
				}
				v := genTF(t, re, mode, fmt.Sprintf("x%d", i))
				X, err := re.decode(v)
				must(err)
				h.add("Read", tfString(v))
				// fault: an attribute that belongs to no oneof group is missing from the object (the read
				// reports it; what the groups hold is still determined by their own branch attributes)
				var plain []string
				for _, e := range re.view.Entries {
					if !e.Placeholder && e.F.Oneof == "" && e.Child == nil { // nothing below it holds a group
						plain = append(plain, e.Attr)
					}
				}
				// a known, non-null branch of a field-less message written as the zero value `types.Object{}`
				// (no Attrs, no AttrTypes): there is nothing to read from it, it still selects its branch
				for _, e := range re.view.Entries {
					if e.Placeholder || e.F.Oneof == "" || e.Child == nil || len(e.Child.Msg.Fields) != 0 {
						continue
					}
					if o, ok := X.Attrs[e.Attr].(types.Object); ok && !o.Null && !o.Unknown && coin(t, 1, 2, fmt.Sprintf("zeroobj%d/%s", i, e.Attr)) {
						X = cloneObject(X)
						X.Attrs[e.Attr] = types.Object{}
						h.add("ZeroObject", "branch "+e.Attr+" is types.Object{}")
						st.probe("field-less-branch-as-zero-object")
					}
				}
				if len(plain) > 0 && coin(t, 1, 6, fmt.Sprintf("damaged%d", i)) {
					gone := plain[rapid.IntRange(0, len(plain)-1).Draw(t, fmt.Sprintf("gone%d", i))]
					Xd := cloneObject(X)
					delete(Xd.Attrs, gone)
					h.add("Fault", "attribute "+gone+" deleted from the object")
					st.fault("delete-plain-attribute")
					if p := safely(func() { re.fn.From(ctx, Xd, S) }); p != "" {
						violate(t, "C07/no-panic/copy-from/"+panicClass(re.view), "CopyFrom panicked: %s\nhistory: %s", p, strings.Join(h.lines, " ; "))
					}
				} else {
					re.copyFrom(t, "C07", X, S, h)
				}
				c07Walk(t, re, re.view, reflect.ValueOf(S).Elem(), v, "", mode.oneofAtMost1, h)
			}
		}
	}
}

// ---------------------------------------------------------------------------------------------
// C08 — apply echo

func c08Walk(t *rapid.T, re *rootEnv, n *spec.Node, plan, result tftypes.Value, path string, h *history) {
	pm, rm := attrsOf(plan), attrsOf(result)
	fail := func(clause string, e *spec.Entry, p string, format string, a ...interface{}) {
		violate(t, "C08/"+clause+"/"+entryClass(e, false, 0), "at %s: %s\nplan   %s\nresult %s\nhistory: %s", p, fmt.Sprintf(format, a...), tfString(plan), tfString(result), strings.Join(h.lines, " ; "))
	}
	for _, e := range n.Entries {
		p := path + "." + e.Attr
		pv, rv := pm[e.Attr], rm[e.Attr]
		if !pv.IsKnown() {
			continue
		}
		switch {
		case e.Placeholder || (e.F.Card == "" && e.F.Kind != spec.KMessage):
			if !rv.Equal(pv) {
				fail("known-unchanged", e, p, "planned %s, returned %s", tfString(pv), tfString(rv))
			}
		case e.F.Card == "":
			if pv.IsNull() != rv.IsNull() {
				fail("known-unchanged", e, p, "planned null=%v, returned null=%v", pv.IsNull(), rv.IsNull())
			}
			if present(pv) && present(rv) {
				c08Walk(t, re, e.Child, pv, rv, p, h)
			}
		default:
			if pv.IsNull() != rv.IsNull() {
				fail("collection-nullness", e, p, "planned null=%v, returned null=%v", pv.IsNull(), rv.IsNull())
			}
			if pv.IsNull() || !rv.IsKnown() {
				continue
			}
			if e.F.Card == spec.CardList {
				var a, b []tftypes.Value
				must(pv.As(&a))
				must(rv.As(&b))
				if len(a) != len(b) {
					fail("collection-length", e, p, "planned %d elements, returned %d", len(a), len(b))
				}
			} else {
				var a, b map[string]tftypes.Value
				must(pv.As(&a))
				must(rv.As(&b))
				for k := range a {
					if _, ok := b[k]; !ok {
						fail("collection-keys", e, p, "planned key %q is gone", k)
					}
				}
				for k := range b {
					if _, ok := a[k]; !ok {
						fail("collection-keys", e, p, "key %q appeared", k)
					}
				}
			}
		}
	}
}

// statePattern abbreviates the top-level null/unknown/known pattern of an object value (history class).
func statePattern(v tftypes.Value) string {
	m := attrsOf(v)
	var b strings.Builder
	for _, k := range sortedKeysTF(m) {
		switch {
		case !m[k].IsKnown():
			b.WriteByte('u')
		case m[k].IsNull():
			b.WriteByte('n')
		default:
			b.WriteByte('k')
		}
	}
	return b.String()
}

// nextPlan derives the next plan from the previous result: attributes kept, or redrawn.
func nextPlan(t *rapid.T, re *rootEnv, prev tftypes.Value, label string) tftypes.Value {
	fresh := genTF(t, re, modePlan, label)
	pm, fm := attrsOf(prev), attrsOf(fresh)
	out := map[string]tftypes.Value{}
	// keep whole oneof groups together so that "at most one non-null branch" stays true
	group := map[string]string{}
	for _, o := range re.view.Oneofs {
		for _, e := range branchesOf(re.view, o) {
			group[e.Attr] = o.Name + "/" + viaKey(o.Via)
		}
	}
	keepGroup := map[string]bool{}
	fkeys := make([]string, 0, len(fm))
	for k := range fm {
		fkeys = append(fkeys, k)
	}
	sort.Strings(fkeys)
	for _, k := range fkeys {
		fv := fm[k]
		keep := false
		if g, ok := group[k]; ok {
			d, seen := keepGroup[g]
			if !seen {
				d = coin(t, 1, 2, label+"/keepgroup:"+g)
				keepGroup[g] = d
			}
			keep = d
		} else {
			keep = coin(t, 1, 2, label+"/keep:"+k)
		}
		if pv, ok := pm[k]; ok && keep {
			out[k] = pv
		} else {
			out[k] = fv
		}
	}
	return tftypes.NewValue(re.tfType, out)
}

func propC08(re *rootEnv) func(*rapid.T) {
	return func(t *rapid.T) {
		h := &history{root: re.name}
		defer h.finish()
		planV := genTF(t, re, modePlan, "plan0")
		cycles := rapid.IntRange(1, (maxSteps()+1)/2).Draw(t, "cycles")
		for i := 0; i < cycles; i++ {
			var plan types.Object
			var err error
			if i%2 == 0 {
				plan, err = re.decode(planV)
			} else {
				plan, err = re.restartTF(planV) // through the durable msgpack form
			}
			must(err)
			h.add("Plan", tfString(planV))
			h.kinds[len(h.kinds)-1] = "Plan:" + statePattern(planV)
			// the same plan written the way a literal is (`types.List{ElemType: t}`): known, empty
			// collections carry a nil container
			if coin(t, 1, 4, fmt.Sprintf("literal%d", i)) {
				plan = nilEmptyContainers(plan).(types.Object)
				h.add("PlanLiteral", "known empty collections have nil Elems")
				st.probe("plan-with-nil-containers-for-empty-collections")
			}
			S := re.fn.New()
			re.copyFrom(t, "C08", plan, S, h)
			h.add("Echo", "")
			re.copyTo(t, "C08", S, &plan, h)
			result := re.mustTF(t, "C08", plan, h)
			if p := firstUnknown(result, "", re.injected); p != "" {
				violate(t, "C08/nothing-unknown/"+shapeClass(re.view, p), "unknown value at %s after the echo\nplan   %s\nresult %s", p, tfString(planV), tfString(result))
			}
			c08Walk(t, re, re.view, planV, result, "", h)
			// decoding the result yields the same struct again
			S2 := re.fn.New()
			re.copyFrom(t, "C08", plan, S2, h)
			if d := nfDiff(re.nf(S2), re.nf(S), ""); d != "" {
				violate(t, "C08/decodes-to-same-struct/"+shapeClass(re.view, pathOfDiff(d)), "decode(result) vs decode(plan): %s\nplan   %s\nresult %s", d, tfString(planV), tfString(result))
			}
			// and so does the reference decode of the durable result
			if d := nfDiff(re.nf(re.refDecodeRoot(result)), re.nf(S), ""); d != "" {
				violate(t, "C08/decodes-to-same-struct/"+shapeClass(re.view, pathOfDiff(d)), "reference decode(result) vs decode(plan): %s\nplan   %s\nresult %s", d, tfString(planV), tfString(result))
			}
			planV = nextPlan(t, re, result, fmt.Sprintf("plan%d", i+1))
		}
	}
}

// c07NaNWrite: an active float / double branch whose payload is NaN — a legal, non-zero Go value that
// the Terraform value domain cannot carry, so the result is inspected on the attribute values' own
// flags instead of through the tftypes conversion. Returns false when the root has no such branch.
func c07NaNWrite(t *rapid.T, re *rootEnv, h *history, label string) bool {
	var cands []*spec.Entry
	for _, e := range re.view.Entries {
		if !e.Placeholder && e.F.Oneof != "" && (e.F.Kind == spec.KDouble || e.F.Kind == spec.KFloat) && !hasNullableVia(e.Via) {
			cands = append(cands, e)
		}
	}
	if len(cands) == 0 {
		return false
	}
	e := cands[rapid.IntRange(0, len(cands)-1).Draw(t, label+"/nanbranch")]
	var o *spec.OneofRef
	for i := range re.view.Oneofs {
		if x := &re.view.Oneofs[i]; x.Name == e.F.Oneof && x.Decl == e.Decl && sameVia(x.Via, e.Via) {
			o = x
		}
	}
	if o == nil {
		return false
	}
	src := re.fn.New()
	owner := holderOf(reflect.ValueOf(src).Elem(), o.Via, true)
	w := reflect.New(oneofWrapper(owner, e.Go).Elem())
	w.Elem().Field(0).SetFloat(math.NaN())
	owner.FieldByName(o.Go).Set(w)
	h.add("WriteEmptyNaN", "branch "+e.Attr+" = NaN")
	O := re.emptyObject()
	if p := safely(func() { re.fn.To(ctx, src, &O) }); p != "" {
		violate(t, "C07/no-panic/copy-to/"+panicClass(re.view), "CopyTo panicked: %s\nhistory: %s", p, strings.Join(h.lines, " ; "))
	}
	for _, b := range re.view.Entries {
		if b.Placeholder || b.F.Oneof != e.F.Oneof || b.Decl != e.Decl || !sameVia(b.Via, e.Via) {
			continue
		}
		a, ok := O.Attrs[b.Attr]
		if !ok {
			violate(t, "C07/active-branch-non-null/"+entryClass(b, false, 0), "attribute %s was not written\nhistory: %s", b.Attr, strings.Join(h.lines, " ; "))
		}
		nf := reflect.ValueOf(a).FieldByName("Null")
		if !nf.IsValid() {
			continue
		}
		if b == e && nf.Bool() {
			violate(t, "C07/active-branch-non-null/"+entryClass(b, false, 0), "active branch %s (payload NaN, which is not the zero value) is rendered as null\nhistory: %s", b.Attr, strings.Join(h.lines, " ; "))
		}
		if b != e && !nf.Bool() {
			violate(t, "C07/inactive-branch-null/"+entryClass(b, false, 0), "inactive branch %s is not null while %s is active\nhistory: %s", b.Attr, e.Attr, strings.Join(h.lines, " ; "))
		}
	}
	st.probe("nan-payload-in-active-branch")
	return true
}

// nilEmptyContainers returns v with the Elems of every known, non-null, empty list or map set to nil
// (the same value, written as a literal).
func nilEmptyContainers(v attr.Value) attr.Value {
	switch x := v.(type) {
	case types.Object:
		if x.Null || x.Unknown || x.Attrs == nil {
			return x
		}
		c := x
		c.Attrs = make(map[string]attr.Value, len(x.Attrs))
		for k, a := range x.Attrs {
			c.Attrs[k] = nilEmptyContainers(a)
		}
		return c
	case types.List:
		if x.Null || x.Unknown {
			return x
		}
		c := x
		if len(x.Elems) == 0 {
			c.Elems = nil
			return c
		}
		c.Elems = make([]attr.Value, len(x.Elems))
		for i, a := range x.Elems {
			c.Elems[i] = nilEmptyContainers(a)
		}
		return c
	case types.Map:
		if x.Null || x.Unknown {
			return x
		}
		c := x
		if len(x.Elems) == 0 {
			c.Elems = nil
			return c
		}
		c.Elems = make(map[string]attr.Value, len(x.Elems))
		for k, a := range x.Elems {
			c.Elems[k] = nilEmptyContainers(a)
		}
		return c
	}
	return v
}

// c09Rendering: singular time attributes that were non-null before and are non-null now equal, as
// Terraform values, what a fresh copy of the same source holds (through singular nested messages).
func c09Rendering(t *rapid.T, n *spec.Node, before, after, fresh tftypes.Value, path string, h *history) {
	bm, am, fm := attrsOf(before), attrsOf(after), attrsOf(fresh)
	for _, e := range n.Entries {
		if e.Placeholder || e.F.Card != "" || e.F.Oneof != "" {
			continue
		}
		b, a, f := bm[e.Attr], am[e.Attr], fm[e.Attr]
		if !present(b) || !present(a) || !present(f) {
			continue
		}
		p := path + "." + e.Attr
		switch {
		case e.F.Kind == spec.KMessage && e.Child != nil:
			c09Rendering(t, e.Child, b, a, f, p, h)
		case e.F.Kind == spec.KTime:
			if !a.Equal(f) {
				violate(t, "C09/scalar-follows-source/rendering/"+entryClass(e, false, 0), "at %s: attribute %s, a fresh copy of the same source gives %s (before: %s)\nhistory: %s",
					p, tfString(a), tfString(f), tfString(b), strings.Join(h.lines, " ; "))
			}
		}
	}
}
