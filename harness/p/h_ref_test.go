package p

// convsim harness, part 3: the reference model (a spec-driven decoder from the Terraform value an
// object stands for to the struct the documentation promises) and the normal form of C04 used as
// observation function. Nothing here is derived from the generator's sources.

import (
	"fmt"
	"math/big"
	"reflect"
	"sort"
	"strconv"
	"time"

	"github.com/hashicorp/terraform-plugin-go/tftypes"

	"scratch/spec"
)

func present(v tftypes.Value) bool { return v.IsKnown() && !v.IsNull() }

// refScalar converts a known non-null Terraform scalar to the Go type typ per the documented table.
func refScalar(f *spec.Field, v tftypes.Value, typ reflect.Type) reflect.Value {
	conv := func(x interface{}) reflect.Value { return reflect.ValueOf(x).Convert(typ) }
	switch {
	case f.Kind == spec.KTime:
		var s string
		must(v.As(&s))
		tm, err := time.Parse(time.RFC3339Nano, s)
		must(err)
		return reflect.ValueOf(tm)
	case f.Kind == spec.KDuration || f.IsCastDuration():
		var s string
		must(v.As(&s))
		n, err := strconv.ParseInt(s, 10, 64)
		must(err)
		return conv(n)
	}
	switch f.Kind {
	case spec.KDouble, spec.KFloat:
		bf := new(big.Float)
		must(v.As(&bf))
		x, _ := bf.Float64()
		if f.Kind == spec.KFloat {
			return conv(float32(x))
		}
		return conv(x)
	case spec.KInt32, spec.KSint32, spec.KSfixed32, spec.KInt64, spec.KSint64, spec.KSfixed64, spec.KEnum:
		bf := new(big.Float)
		must(v.As(&bf))
		x, _ := bf.Int64()
		return conv(x)
	case spec.KUint32, spec.KFixed32, spec.KUint64, spec.KFixed64:
		bf := new(big.Float)
		must(v.As(&bf))
		x, _ := bf.Int64() // the attribute is Int64: values above MaxInt64 cannot occur
		return conv(uint64(x))
	case spec.KBool:
		var b bool
		must(v.As(&b))
		return conv(b)
	case spec.KString:
		var s string
		must(v.As(&s))
		return conv(s)
	case spec.KBytes:
		var s string
		must(v.As(&s))
		return conv([]byte(s))
	}
	panic("harness: refScalar on kind " + f.Kind)
}

func must(err error) {
	if err != nil {
		panic("harness: " + err.Error())
	}
}

// refElem decodes one element / singular value; null and unknown give the zero value.
func refElem(e *spec.Entry, v tftypes.Value, typ reflect.Type) reflect.Value {
	if !present(v) {
		return reflect.Zero(typ)
	}
	if e.F.Kind == spec.KMessage {
		if typ.Kind() == reflect.Ptr {
			n := reflect.New(typ.Elem())
			refDecode(e.Child, v, n.Elem())
			return n
		}
		n := reflect.New(typ).Elem()
		refDecode(e.Child, v, n)
		return n
	}
	if typ.Kind() == reflect.Ptr {
		n := reflect.New(typ.Elem())
		n.Elem().Set(refScalar(e.F, v, typ.Elem()))
		return n
	}
	return refScalar(e.F, v, typ)
}

// refDecode fills the zero struct rv from the known non-null object value obj.
func refDecode(n *spec.Node, obj tftypes.Value, rv reflect.Value) {
	var m map[string]tftypes.Value
	must(obj.As(&m))
	for _, e := range n.Entries {
		if e.Placeholder {
			continue
		}
		v, ok := m[e.Attr]
		if !ok || !present(v) {
			continue
		}
		h := holderOf(rv, e.Via, true)
		if e.F.Oneof != "" {
			hf := h.FieldByName(spec.CamelCase(e.F.Oneof))
			wt := oneofWrapper(h, e.Go)
			w := reflect.New(wt.Elem())
			w.Elem().Field(0).Set(refElem(e, v, w.Elem().Field(0).Type()))
			hf.Set(w)
			continue
		}
		fv := h.FieldByName(e.Go)
		switch e.F.Card {
		case spec.CardList:
			var els []tftypes.Value
			must(v.As(&els))
			s := reflect.MakeSlice(fv.Type(), len(els), len(els))
			for i, el := range els {
				s.Index(i).Set(refElem(e, el, fv.Type().Elem()))
			}
			fv.Set(s)
		case spec.CardMap:
			var els map[string]tftypes.Value
			must(v.As(&els))
			mp := reflect.MakeMapWithSize(fv.Type(), len(els))
			for k, el := range els {
				mp.SetMapIndex(reflect.ValueOf(k), refElem(e, el, fv.Type().Elem()))
			}
			fv.Set(mp)
		default:
			fv.Set(refElem(e, v, fv.Type()))
		}
	}
}

// refDecodeRoot decodes a root value into a fresh struct.
func (re *rootEnv) refDecodeRoot(v tftypes.Value) interface{} {
	p := re.fn.New()
	if present(v) {
		refDecode(re.view, v, reflect.ValueOf(p).Elem())
	}
	return p
}

// ---------------------------------------------------------------------------------------------
// normal form

type ptrVal struct{ V interface{} }

func nfScalar(f *spec.Field, v reflect.Value) interface{} {
	if v.Kind() == reflect.Ptr {
		if v.IsNil() {
			return nil
		}
		return ptrVal{nfScalarValue(f, v.Elem(), true)}
	}
	return nfScalarValue(f, v, false)
}

// nfScalarValue: canonical value; zero values are nil unless keepZero.
func nfScalarValue(f *spec.Field, v reflect.Value, keepZero bool) interface{} {
	if f.Kind == spec.KTime {
		return v.Interface().(time.Time).UTC().Format(time.RFC3339Nano) // compared as instants
	}
	var out interface{}
	zero := false
	switch v.Kind() {
	case reflect.Int, reflect.Int32, reflect.Int64:
		out, zero = v.Int(), v.Int() == 0
	case reflect.Uint32, reflect.Uint64:
		out, zero = v.Uint(), v.Uint() == 0
	case reflect.Float32, reflect.Float64:
		x := v.Float()
		if x == 0 {
			x = 0 // -0 == 0
		}
		out, zero = x, x == 0
	case reflect.Bool:
		out, zero = v.Bool(), !v.Bool()
	case reflect.String:
		out, zero = v.String(), v.Len() == 0
	case reflect.Slice: // bytes
		out, zero = string(v.Bytes()), v.Len() == 0
	default:
		panic("harness: nfScalarValue on " + v.Kind().String())
	}
	if zero && !keepZero {
		return nil
	}
	return out
}

// nfElem: canonical form of a list/map element or singular value. keepZero for collection elements.
func nfElem(e *spec.Entry, v reflect.Value, keepZero bool) interface{} {
	if e.F.Kind == spec.KMessage {
		if v.Kind() == reflect.Ptr {
			if v.IsNil() {
				return nil
			}
			return nfNode(e.Child, v.Elem())
		}
		return nfNode(e.Child, v)
	}
	if keepZero && v.Kind() != reflect.Ptr {
		return nfScalarValue(e.F, v, true)
	}
	return nfScalar(e.F, v)
}

// nfNode returns the normal form of struct rv seen through node n: attribute name -> canonical
// value, absent when zero / nil / empty. Excluded fields are not part of it.
func nfNode(n *spec.Node, rv reflect.Value) map[string]interface{} {
	out := map[string]interface{}{}
	var scratch reflect.Value
	holder := func(via []spec.Via) reflect.Value {
		h := holderOf(rv, via, false)
		if h.IsValid() {
			return h
		}
		// a nil nullable embedded parent is identified with an all-zero one
		if !scratch.IsValid() {
			scratch = reflect.New(rv.Type()).Elem()
		}
		return holderOf(scratch, via, true)
	}
	for _, e := range n.Entries {
		if e.Placeholder {
			continue
		}
		h := holder(e.Via)
		if e.F.Oneof != "" {
			hf := h.FieldByName(spec.CamelCase(e.F.Oneof))
			if hf.IsNil() {
				continue
			}
			w := hf.Elem() // pointer to wrapper
			if w.Type() != oneofWrapper(h, e.Go) {
				continue
			}
			pf := w.Elem().Field(0)
			if x := nfElem(e, pf, false); x != nil {
				out[e.Attr] = x
			}
			continue
		}
		fv := h.FieldByName(e.Go)
		switch e.F.Card {
		case spec.CardList:
			if fv.Len() == 0 {
				continue
			}
			l := make([]interface{}, fv.Len())
			for i := range l {
				l[i] = nfElem(e, fv.Index(i), true)
			}
			out[e.Attr] = l
		case spec.CardMap:
			if fv.Len() == 0 {
				continue
			}
			mp := map[string]interface{}{}
			it := fv.MapRange()
			for it.Next() {
				mp[it.Key().String()] = nfElem(e, it.Value(), true)
			}
			out[e.Attr] = mp
		default:
			if x := nfElem(e, fv, false); x != nil {
				out[e.Attr] = x
			}
		}
	}
	return out
}

func (re *rootEnv) nf(p interface{}) map[string]interface{} {
	return nfNode(re.view, reflect.ValueOf(p).Elem())
}

// nfDiff returns "" when equal, else the first difference with its path.
func nfDiff(a, b interface{}, path string) string {
	switch x := a.(type) {
	case map[string]interface{}:
		y, ok := b.(map[string]interface{})
		if !ok {
			return fmt.Sprintf("%s: %v vs %v", path, brief(a), brief(b))
		}
		keys := map[string]bool{}
		for k := range x {
			keys[k] = true
		}
		for k := range y {
			keys[k] = true
		}
		ks := make([]string, 0, len(keys))
		for k := range keys {
			ks = append(ks, k)
		}
		sort.Strings(ks)
		for _, k := range ks {
			xv, xo := x[k]
			yv, yo := y[k]
			if !xo || !yo {
				return fmt.Sprintf("%s.%s: %v vs %v", path, k, brief(xv), brief(yv))
			}
			if d := nfDiff(xv, yv, path+"."+k); d != "" {
				return d
			}
		}
		return ""
	case []interface{}:
		y, ok := b.([]interface{})
		if !ok || len(x) != len(y) {
			return fmt.Sprintf("%s: %v vs %v", path, brief(a), brief(b))
		}
		for i := range x {
			if d := nfDiff(x[i], y[i], fmt.Sprintf("%s[%d]", path, i)); d != "" {
				return d
			}
		}
		return ""
	case ptrVal:
		y, ok := b.(ptrVal)
		if !ok {
			return fmt.Sprintf("%s: %v vs %v", path, brief(a), brief(b))
		}
		return nfDiff(x.V, y.V, path)
	}
	if !reflect.DeepEqual(a, b) {
		return fmt.Sprintf("%s: %v vs %v", path, brief(a), brief(b))
	}
	return ""
}

func brief(x interface{}) string {
	if x == nil {
		return "<absent>"
	}
	s := fmt.Sprintf("%#v", x)
	if len(s) > 160 {
		s = s[:160] + "…"
	}
	return s
}

// pathOfDiff extracts the attribute path ("a.b[0].c") from an nfDiff result.
func pathOfDiff(d string) string {
	for i := 0; i < len(d); i++ {
		if d[i] == ':' {
			return d[:i]
		}
	}
	return d
}
