package p

// Map-order seam for the generated converters (DESIGN.md §4.2 "generated code"): the assembly step
// rewrites every `for k, v := range <map>` of p_terraform.go to iterate VerifSimKeys(...), so that
// the order is decided by the simulator (rapid) instead of the runtime, and replays exactly.

import (
	"fmt"
	"reflect"
	"sort"
)

// VerifSimOrder is installed by the harness: given a site and the number of keys (>= 2) it returns a
// rotation amount r (0 <= r < n) and whether to reverse. nil means canonical (sorted) order.
var VerifSimOrder func(site string, n int) (rot int, reverse bool)

// VerifSimMapRanges counts map iterations with >= 2 keys (evidence).
var VerifSimMapRanges int

func verifSimLess(a, b reflect.Value) bool {
	switch a.Kind() {
	case reflect.String:
		return a.String() < b.String()
	case reflect.Int, reflect.Int8, reflect.Int16, reflect.Int32, reflect.Int64:
		return a.Int() < b.Int()
	case reflect.Uint, reflect.Uint8, reflect.Uint16, reflect.Uint32, reflect.Uint64:
		return a.Uint() < b.Uint()
	}
	return fmt.Sprint(a.Interface()) < fmt.Sprint(b.Interface())
}

func VerifSimKeys(m interface{}, site string) []reflect.Value {
	v := reflect.ValueOf(m)
	if v.Kind() != reflect.Map {
		return nil
	}
	keys := v.MapKeys()
	sort.Slice(keys, func(i, j int) bool { return verifSimLess(keys[i], keys[j]) })
	n := len(keys)
	if n >= 2 {
		VerifSimMapRanges++
		if VerifSimOrder != nil {
			rot, rev := VerifSimOrder(site, n)
			if rot > 0 {
				keys = append(keys[rot%n:], keys[:rot%n]...)
			}
			if rev {
				for i, j := 0, n-1; i < j; i, j = i+1, j-1 {
					keys[i], keys[j] = keys[j], keys[i]
				}
			}
		}
	}
	return keys
}

func VerifSimHas(m interface{}, k reflect.Value) bool {
	return reflect.ValueOf(m).MapIndex(k).IsValid()
}

func VerifSimAt(m interface{}, k reflect.Value) reflect.Value {
	return reflect.ValueOf(m).MapIndex(k)
}

func VerifSimSet(dst interface{}, v reflect.Value) {
	reflect.ValueOf(dst).Elem().Set(v)
}

// Entries added to a map while it is ranged over: the generated converters never do that; a body
// that did would have them skipped here (deterministically).
func VerifSimSeen() map[interface{}]bool { return map[interface{}]bool{} }

func VerifSimMark(seen map[interface{}]bool, k reflect.Value) { seen[k.Interface()] = true }

func VerifSimMore(m interface{}, seen map[interface{}]bool, site string) []reflect.Value { return nil }
