package p

// Harness-supplied attribute types for time and duration fields (DESIGN.md §3, D_conv). They are
// lossless (RFC3339Nano / integer nanoseconds) so that nothing the user would have to write can
// blur an oracle. They are user code from the generator's point of view, not code under test.

import (
	"context"
	"fmt"
	"math"
	"math/big"
	"strconv"
	"time"

	"github.com/hashicorp/terraform-plugin-framework/attr"
	"github.com/hashicorp/terraform-plugin-framework/diag"
	"github.com/hashicorp/terraform-plugin-framework/tfsdk"
	"github.com/hashicorp/terraform-plugin-go/tftypes"
)

type SimTimeType struct{}

func (t SimTimeType) ApplyTerraform5AttributePathStep(step tftypes.AttributePathStep) (interface{}, error) {
	return nil, fmt.Errorf("cannot apply AttributePathStep %T to %s", step, t.String())
}
func (t SimTimeType) String() string { return "SimTimeType" }
func (t SimTimeType) Equal(o attr.Type) bool {
	_, ok := o.(SimTimeType)
	return ok
}
func (t SimTimeType) TerraformType(context.Context) tftypes.Type { return tftypes.String }
func (t SimTimeType) ValueFromTerraform(_ context.Context, in tftypes.Value) (attr.Value, error) {
	if !in.IsKnown() {
		return SimTimeValue{Unknown: true}, nil
	}
	if in.IsNull() {
		return SimTimeValue{Null: true}, nil
	}
	var raw string
	if err := in.As(&raw); err != nil {
		return nil, err
	}
	v, err := time.Parse(time.RFC3339Nano, raw)
	if err != nil {
		return nil, err
	}
	return SimTimeValue{Value: v}, nil
}

// UseSimTime is a type constructor (time_type.type_constructor names it in some configurations).
func UseSimTime() SimTimeType { return SimTimeType{} }

// UseSimDuration likewise for duration_type.
func UseSimDuration() SimDurationType { return SimDurationType{} }

type SimTimeValue struct {
	Unknown bool
	Null    bool
	Value   time.Time
}

func (t SimTimeValue) Type(context.Context) attr.Type { return SimTimeType{} }
func (t SimTimeValue) ToTerraformValue(context.Context) (tftypes.Value, error) {
	if t.Null {
		return tftypes.NewValue(tftypes.String, nil), nil
	}
	if t.Unknown {
		return tftypes.NewValue(tftypes.String, tftypes.UnknownValue), nil
	}
	// the zone offset is part of the stored string: an attribute that round-trips must keep it
	return tftypes.NewValue(tftypes.String, t.Value.Format(time.RFC3339Nano)), nil
}
func (t SimTimeValue) Equal(other attr.Value) bool {
	o, ok := other.(SimTimeValue)
	return ok && t.Unknown == o.Unknown && t.Null == o.Null && t.Value.Equal(o.Value)
}
func (t SimTimeValue) IsNull() bool    { return t.Null }
func (t SimTimeValue) IsUnknown() bool { return t.Unknown }
func (t SimTimeValue) String() string {
	if t.Unknown {
		return attr.UnknownValueString
	}
	if t.Null {
		return attr.NullValueString
	}
	return t.Value.UTC().Format(time.RFC3339Nano)
}

type SimDurationType struct{}

func (t SimDurationType) ApplyTerraform5AttributePathStep(step tftypes.AttributePathStep) (interface{}, error) {
	return nil, fmt.Errorf("cannot apply AttributePathStep %T to %s", step, t.String())
}
func (t SimDurationType) String() string { return "SimDurationType" }
func (t SimDurationType) Equal(o attr.Type) bool {
	_, ok := o.(SimDurationType)
	return ok
}
func (t SimDurationType) TerraformType(context.Context) tftypes.Type { return tftypes.String }
func (t SimDurationType) ValueFromTerraform(_ context.Context, in tftypes.Value) (attr.Value, error) {
	if !in.IsKnown() {
		return SimDurationValue{Unknown: true}, nil
	}
	if in.IsNull() {
		return SimDurationValue{Null: true}, nil
	}
	var raw string
	if err := in.As(&raw); err != nil {
		return nil, err
	}
	n, err := strconv.ParseInt(raw, 10, 64)
	if err != nil {
		return nil, err
	}
	return SimDurationValue{Value: time.Duration(n)}, nil
}

type SimDurationValue struct {
	Unknown bool
	Null    bool
	Value   time.Duration
}

func (t SimDurationValue) Type(context.Context) attr.Type { return SimDurationType{} }
func (t SimDurationValue) ToTerraformValue(context.Context) (tftypes.Value, error) {
	if t.Null {
		return tftypes.NewValue(tftypes.String, nil), nil
	}
	if t.Unknown {
		return tftypes.NewValue(tftypes.String, tftypes.UnknownValue), nil
	}
	return tftypes.NewValue(tftypes.String, strconv.FormatInt(int64(t.Value), 10)), nil
}
func (t SimDurationValue) Equal(other attr.Value) bool {
	o, ok := other.(SimDurationValue)
	return ok && t == o
}
func (t SimDurationValue) IsNull() bool    { return t.Null }
func (t SimDurationValue) IsUnknown() bool { return t.Unknown }
func (t SimDurationValue) String() string {
	if t.Unknown {
		return attr.UnknownValueString
	}
	if t.Null {
		return attr.NullValueString
	}
	return strconv.FormatInt(int64(t.Value), 10)
}

// SimInt32Type / SimInt32Value: an attribute type whose Go value is int32 (a schema_types override with a
// cast_to_type that differs from the stock int64).
// (a schema_types override is emitted as an expression, like types.Int64Type, so the name is a variable)
type simInt32T struct{}

var SimInt32Type = simInt32T{}

func (t simInt32T) ApplyTerraform5AttributePathStep(step tftypes.AttributePathStep) (interface{}, error) {
	return nil, fmt.Errorf("cannot apply AttributePathStep %T to %s", step, t.String())
}
func (t simInt32T) String() string { return "SimInt32Type" }
func (t simInt32T) Equal(o attr.Type) bool {
	_, ok := o.(simInt32T)
	return ok
}
func (t simInt32T) TerraformType(context.Context) tftypes.Type { return tftypes.Number }
func (t simInt32T) ValueFromTerraform(_ context.Context, in tftypes.Value) (attr.Value, error) {
	if !in.IsKnown() {
		return SimInt32Value{Unknown: true}, nil
	}
	if in.IsNull() {
		return SimInt32Value{Null: true}, nil
	}
	bf := new(big.Float)
	if err := in.As(&bf); err != nil {
		return nil, err
	}
	n, acc := bf.Int64()
	if acc != big.Exact || n > math.MaxInt32 || n < math.MinInt32 {
		return nil, fmt.Errorf("value %s is not an int32", bf)
	}
	return SimInt32Value{Value: int32(n)}, nil
}

type SimInt32Value struct {
	Unknown bool
	Null    bool
	Value   int32
}

func (t SimInt32Value) Type(context.Context) attr.Type { return SimInt32Type }
func (t SimInt32Value) ToTerraformValue(context.Context) (tftypes.Value, error) {
	if t.Null {
		return tftypes.NewValue(tftypes.Number, nil), nil
	}
	if t.Unknown {
		return tftypes.NewValue(tftypes.Number, tftypes.UnknownValue), nil
	}
	return tftypes.NewValue(tftypes.Number, new(big.Float).SetInt64(int64(t.Value))), nil
}
func (t SimInt32Value) Equal(other attr.Value) bool {
	o, ok := other.(SimInt32Value)
	return ok && t == o
}
func (t SimInt32Value) IsNull() bool    { return t.Null }
func (t SimInt32Value) IsUnknown() bool { return t.Unknown }
func (t SimInt32Value) String() string {
	if t.Unknown {
		return attr.UnknownValueString
	}
	if t.Null {
		return attr.NullValueString
	}
	return strconv.FormatInt(int64(t.Value), 10)
}

// simValidator is a no-op validator so that `validators` entries have something to name.
type simValidator struct{}

func UseSimValidator() tfsdk.AttributeValidator { return simValidator{} }

func (simValidator) Description(context.Context) string         { return "sim" }
func (simValidator) MarkdownDescription(context.Context) string { return "sim" }
func (simValidator) Validate(context.Context, tfsdk.ValidateAttributeRequest, *tfsdk.ValidateAttributeResponse) {
}

var _ diag.Diagnostics
