#!/bin/bash
# ./ingest_seed.sh <name>      e.g. C09a — takes /tmp/seed/out/<name>/{patch.diff,demo/,meta.json} produced by an
# independent sub-agent, confirms it (applies to a clean worktree of /repo HEAD, builds, the 41 baseline tests
# pass, the demonstration fails with the patch and passes without it) and stores it under seeded/<name>/.
cd "$(dirname "$0")" || exit 2
export GOFLAGS=-mod=mod GOPROXY=off GOSUMDB=off GOTOOLCHAIN=local
name=$1
src=/tmp/seed/out/$name
[ -f "$src/patch.diff" ] && [ -f "$src/demo/run.sh" ] || { echo "missing deliverables in $src"; exit 2; }
scratch=$(mktemp -d /tmp/verif-ingest-XXXXXX)
clean=$scratch/clean; patched=$scratch/patched
git -C /repo worktree add -q --detach "$clean" HEAD
git -C /repo worktree add -q --detach "$patched" HEAD
status=ok; notes=""
if ! git -C "$patched" apply "$src/patch.diff"; then status="patch-does-not-apply"; fi
if [ $status = ok ]; then
  (cd "$patched" && go build ./... && go test -vet=off -count=1 ./... > "$scratch/test.log" 2>&1) || status="baseline-fails-with-patch"
  npass=$(grep -c "^ok" "$scratch/test.log" 2>/dev/null)
fi
if [ $status = ok ]; then
  (cd "$src/demo" && bash ./run.sh "$clean" > "$scratch/demo-clean.log" 2>&1); rc_clean=$?
  (cd "$src/demo" && bash ./run.sh "$patched" > "$scratch/demo-patched.log" 2>&1); rc_patched=$?
  [ $rc_clean -eq 0 ] || status="demo-fails-on-clean-tree(rc=$rc_clean)"
  [ $rc_patched -ne 0 ] || status="demo-passes-with-patch"
  # the demo must leave the trees as it found them (apart from the patch)
  git -C "$clean" status --porcelain | grep -q . && notes="$notes demo left files in the checkout;"
fi
echo "INGEST $name: $status (demo clean rc=$rc_clean, patched rc=$rc_patched) $notes"
if [ $status = ok ]; then
  mkdir -p "seeded/$name"
  cp "$src/patch.diff" "seeded/$name/patch.diff"
  rm -rf "seeded/$name/demo"; cp -r "$src/demo" "seeded/$name/demo"
  python3 - "$src/meta.json" "seeded/$name/meta.json" "$name" "$rc_clean" "$rc_patched" <<'EOF'
import json,sys,subprocess
src,dst,name,rcc,rcp=sys.argv[1:6]
try: m=json.load(open(src))
except Exception as e: m={"meta_parse_error":str(e)}
m["id"]=name
m["property"]=m.get("property") or name[:3]
m["origin"]="independent sub-agent given only the property text and a scratch worktree"
m["repo_head"]=subprocess.check_output(["git","-C","/repo","rev-parse","--short","HEAD"]).decode().strip()
m["confirmed"]={"patch_applies_to_clean_head":True,"go_build_and_41_baseline_tests_pass_with_patch":True,
  "demo_exit_on_clean_tree":int(rcc),"demo_exit_with_patch":int(rcp),
  "commands":["git apply patch.diff (fresh worktree of /repo HEAD)","go build ./... && go test -vet=off -count=1 ./...","demo/run.sh <clean worktree>","demo/run.sh <patched worktree>"]}
json.dump(m,open(dst,"w"),indent=1)
EOF
fi
git -C /repo worktree remove --force "$clean"; git -C /repo worktree remove --force "$patched"
rm -rf "$scratch"; git -C /repo worktree prune
[ $status = ok ]
