// Package convsim assembles, builds and drives the converter simulator (DESIGN.md §4.4): the real
// generated code of a program, linked with the harness in /verif/harness/p, run as one OS process
// per (property, root type) under rapid.
package convsim

import (
	"bufio"
	"bytes"
	"encoding/json"
	"fmt"
	"os"
	"os/exec"
	"path/filepath"
	"regexp"
	"runtime"
	"sort"
	"strconv"
	"strings"
	"sync"
	"time"

	"verif/internal/pipeline"
	"verif/internal/simbuild"
	"verif/spec"
)

// Sim is an assembled and compiled simulator for one program.
type Sim struct {
	Work    string
	Bin     string
	ProgJS  string
	Program *spec.Program
	Roots   []string
	// map-range statements of the generated file put behind the order seam / left native
	MapRangeSites, MapRangeNative int
}

func copyDir(src, dst string, rename func(string) string) error {
	ents, err := os.ReadDir(src)
	if err != nil {
		return err
	}
	if err := os.MkdirAll(dst, 0o755); err != nil {
		return err
	}
	for _, e := range ents {
		if e.IsDir() || !strings.HasSuffix(e.Name(), ".go") {
			continue
		}
		name := e.Name()
		if rename != nil {
			name = rename(name)
		}
		if err := pipeline.CopyFile(filepath.Join(src, e.Name()), filepath.Join(dst, name)); err != nil {
			return err
		}
	}
	return nil
}

func registrySource(p *spec.Program) []byte {
	var b strings.Builder
	b.WriteString("package p\n\nimport (\n\t\"context\"\n\n\t\"github.com/hashicorp/terraform-plugin-framework/diag\"\n\t\"github.com/hashicorp/terraform-plugin-framework/types\"\n)\n\n")
	b.WriteString("var registry = map[string]rootFuncs{\n")
	for _, r := range p.Config.Types {
		fmt.Fprintf(&b, "\t%q: {\n", r)
		fmt.Fprintf(&b, "\t\tNew:    func() interface{} { return &%s{} },\n", r)
		fmt.Fprintf(&b, "\t\tSchema: GenSchema%s,\n", r)
		fmt.Fprintf(&b, "\t\tFrom: func(ctx context.Context, o types.Object, v interface{}) diag.Diagnostics { return Copy%sFromTerraform(ctx, o, v.(*%s)) },\n", r, r)
		fmt.Fprintf(&b, "\t\tTo:   func(ctx context.Context, v interface{}, o *types.Object) diag.Diagnostics { return Copy%sToTerraform(ctx, v.(*%s), o) },\n", r, r)
		b.WriteString("\t},\n")
	}
	b.WriteString("}\n")
	return []byte(b.String())
}

// Assemble generates the program's code with the plugin built from the current tree, adds the
// harness and compiles the simulator binary.
func Assemble(verifRoot, self, pluginBin string, p *spec.Program, work string) (*Sim, error) {
	mod := filepath.Join(work, "mod")
	pdir := filepath.Join(mod, "p")
	if err := os.MkdirAll(pdir, 0o755); err != nil {
		return nil, err
	}
	gen, err := pipeline.Generate(pluginBin, self, p, work)
	if err != nil {
		return nil, &pipeline.BuildError{What: "generation of the simulator program failed", Out: err.Error()}
	}
	files := map[string][]byte{
		"p_terraform.go": gen.Terraform, "p.pb.go": gen.PB, "casts.go": gen.Casts, "registry_gen_test.go": registrySource(p),
	}
	for n, b := range files {
		if err := os.WriteFile(filepath.Join(pdir, n), b, 0o644); err != nil {
			return nil, err
		}
	}
	if err := copyDir(filepath.Join(verifRoot, "harness", "p"), pdir, nil); err != nil {
		return nil, err
	}
	if err := copyDir(filepath.Join(verifRoot, "spec"), filepath.Join(mod, "spec"), nil); err != nil {
		return nil, err
	}
	if err := pipeline.CopyFile(filepath.Join(verifRoot, "harness", "go.mod"), filepath.Join(mod, "go.mod")); err != nil {
		return nil, err
	}
	if err := pipeline.CopyFile(filepath.Join(verifRoot, "harness", "go.sum"), filepath.Join(mod, "go.sum")); err != nil {
		return nil, err
	}
	pj, _ := json.Marshal(p)
	progJS := filepath.Join(work, "program.json")
	if err := os.WriteFile(progJS, pj, 0o644); err != nil {
		return nil, err
	}
	// map-order seam inside the generated converters
	rep, err := simbuild.RewriteGenerated(mod)
	if err != nil {
		return nil, err
	}
	bin := filepath.Join(work, "convsim.test")
	cmd := exec.Command("go", "test", "-c", "-cover", "-o", bin, "./p/")
	cmd.Dir = mod
	cmd.Env = pipeline.GoEnv()
	out, err := cmd.CombinedOutput()
	if err != nil {
		return nil, &pipeline.BuildError{What: "compilation of the simulator (generated code + harness) failed", Out: tailS(string(out), 6000)}
	}
	return &Sim{Work: work, Bin: bin, ProgJS: progJS, Program: p, Roots: p.Config.Types, MapRangeSites: len(rep.MapRangeSites), MapRangeNative: len(rep.MapRangeNative)}, nil
}

func tailS(s string, n int) string {
	if len(s) > n {
		return s[len(s)-n:]
	}
	return s
}

// Stats is what one harness process reports.
type Stats struct {
	Iterations int            `json:"iterations"`
	Ops        map[string]int `json:"ops"`
	Faults     map[string]int `json:"faults_fired"`
	Probes     map[string]int `json:"probes"`
	NClasses   int            `json:"distinct_history_classes"`
	KnownHits  map[string]int `json:"known_hits"`
	Samples    []string       `json:"samples"`
	Roots      []string       `json:"roots"`
	Digest     uint64         `json:"history_digest"`
}

// ProcResult is the outcome of one (property, root) process.
type ProcResult struct {
	Root      string
	Exit      int
	Output    string
	Stats     *Stats
	Signature string // "" when no violation
	Detail    string
	FailFile  string            // content
	Cover     map[string][2]int // file -> [covered, total] statements
	Err       error
}

var (
	sigRe    = regexp.MustCompile(`SIGNATURE ([^\s)]+)`)
	detailRe = regexp.MustCompile(`(?s)VIOLATION-DETAIL [^\n]*(\n\s+[^\n]*)*`)
	failRe   = regexp.MustCompile(`-rapid\.failfile="([^"]+)"`)
)

// RunOpts for one process.
type RunOpts struct {
	Prop       string
	Root       string
	Seed       uint64
	Checks     int
	Steps      int
	Known      []string
	FailFile   string // replay: path of a rapid fail file
	Timeout    time.Duration
	GoMaxProcs int
}

func gomaxprocs(n int) string {
	if n <= 0 {
		n = 2
	}
	return strconv.Itoa(n)
}

// RunProc runs one harness process.
func (s *Sim) RunProc(o RunOpts) *ProcResult {
	dir, err := os.MkdirTemp(s.Work, "run-"+o.Prop+"-"+o.Root+"-")
	if err != nil {
		return &ProcResult{Root: o.Root, Err: err}
	}
	out := filepath.Join(dir, "stats.json")
	cover := filepath.Join(dir, "cover.out")
	knownPath := filepath.Join(dir, "known.json")
	kb, _ := json.Marshal(o.Known)
	os.WriteFile(knownPath, kb, 0o644)
	if o.Timeout == 0 {
		o.Timeout = 30 * time.Minute
	}
	args := []string{"-test.run", "^TestConv$", "-test.v", "-test.timeout", o.Timeout.String(), "-test.coverprofile", cover}
	if o.FailFile != "" {
		args = append(args, "-rapid.failfile", o.FailFile)
	} else {
		args = append(args, "-rapid.seed", strconv.FormatUint(o.Seed, 10), "-rapid.checks", strconv.Itoa(o.Checks))
	}
	args = append(args, "-rapid.shrinktime", "20s")
	cmd := exec.Command(s.Bin, args...)
	cmd.Dir = dir
	cmd.Env = append(os.Environ(), "VERIF_PROGRAM="+s.ProgJS, "VERIF_PROP="+o.Prop, "VERIF_ROOTS="+o.Root, "VERIF_OUT="+out,
		"VERIF_KNOWN="+knownPath, "VERIF_STEPS="+strconv.Itoa(o.Steps), "GOMAXPROCS="+gomaxprocs(o.GoMaxProcs))
	var buf bytes.Buffer
	cmd.Stdout, cmd.Stderr = &buf, &buf
	err = cmd.Run()
	res := &ProcResult{Root: o.Root, Output: buf.String()}
	if err != nil {
		if ee, ok := err.(*exec.ExitError); ok {
			res.Exit = ee.ExitCode()
		} else {
			res.Err = err
			return res
		}
	}
	if b, err := os.ReadFile(out); err == nil {
		res.Stats = &Stats{}
		_ = json.Unmarshal(b, res.Stats)
	}
	res.Cover = parseCover(cover)
	if os.Getenv("VERIF_DEBUG") != "" {
		fmt.Fprintln(os.Stderr, res.Output)
	}
	if res.Exit != 0 {
		if strings.Contains(res.Output, "HARNESS ") || strings.Contains(res.Output, "harness: ") {
			res.Err = fmt.Errorf("harness trouble in %s/%s: %s", o.Prop, o.Root, tailS(res.Output, 3000))
			return res
		}
		if m := sigRe.FindStringSubmatch(res.Output); m != nil {
			res.Signature = m[1]
			if d := detailRe.FindString(res.Output); d != "" {
				res.Detail = d
			}
			if fm := failRe.FindStringSubmatch(res.Output); fm != nil {
				p := fm[1]
				if !filepath.IsAbs(p) {
					p = filepath.Join(dir, p)
				}
				if b, err := os.ReadFile(p); err == nil {
					res.FailFile = string(b)
				}
			}
		} else {
			res.Err = fmt.Errorf("simulator process for %s/%s failed without a violation signature (exit %d): %s", o.Prop, o.Root, res.Exit, tailS(res.Output, 3000))
		}
	}
	os.RemoveAll(dir)
	return res
}

func parseCover(path string) map[string][2]int {
	f, err := os.Open(path)
	if err != nil {
		return nil
	}
	defer f.Close()
	r := map[string][2]int{}
	sc := bufio.NewScanner(f)
	sc.Buffer(make([]byte, 1<<20), 1<<26)
	for sc.Scan() {
		l := sc.Text()
		if strings.HasPrefix(l, "mode:") {
			continue
		}
		// file:startLine.col,endLine.col numStmt count
		i := strings.LastIndex(l, ":")
		if i < 0 {
			continue
		}
		file := filepath.Base(l[:i])
		fs := strings.Fields(l[i+1:])
		if len(fs) != 3 {
			continue
		}
		n, _ := strconv.Atoi(fs[1])
		c, _ := strconv.Atoi(fs[2])
		x := r[file]
		x[1] += n
		if c > 0 {
			x[0] += n
		}
		r[file] = x
	}
	return r
}

// Finding is one entry of known_findings.json.
type Finding struct {
	Property  string `json:"property"`
	Signature string `json:"signature"`
	What      string `json:"what"`
	Status    string `json:"status"` // "known" | "fixed: <commit>"
}

// LoadFindings reads the committed known-findings file.
func LoadFindings(verifRoot string) ([]Finding, error) {
	b, err := os.ReadFile(filepath.Join(verifRoot, "known_findings.json"))
	if os.IsNotExist(err) {
		return nil, nil
	}
	if err != nil {
		return nil, err
	}
	var f []Finding
	if err := json.Unmarshal(b, &f); err != nil {
		return nil, err
	}
	return f, nil
}

// Replay is the replay file of a convsim violation.
type Replay struct {
	Property  string        `json:"property"`
	Engine    string        `json:"engine"`
	Signature string        `json:"signature"`
	Root      string        `json:"root"`
	Seed      uint64        `json:"seed"`
	Tier      string        `json:"tier"`
	Steps     int           `json:"steps"`
	Program   *spec.Program `json:"program"`
	FailFile  string        `json:"rapid_fail_file"`
	Detail    string        `json:"detail"`
}

// Result of a convsim check.
type Result struct {
	Violations []*Replay
	Paths      []string
	KnownLines []string
	Evidence   map[string]interface{}
	Wall       float64
	NViol      int
}

// BuildAll builds the plain plugin and assembles the simulator for program p.
func BuildAll(verifRoot, self string, p *spec.Program) (*Sim, func(), error) {
	work, err := os.MkdirTemp("", "verif-convsim-")
	if err != nil {
		return nil, nil, err
	}
	cleanup := func() {
		if os.Getenv("VERIF_KEEP") != "" {
			fmt.Fprintln(os.Stderr, "kept scratch directory", work)
			return
		}
		os.RemoveAll(work)
	}
	bin := filepath.Join(work, "plugin.plain")
	if err := pipeline.BuildPlugin(bin, ""); err != nil {
		cleanup()
		return nil, nil, err
	}
	sim, err := Assemble(verifRoot, self, bin, p, work)
	if err != nil {
		cleanup()
		return nil, nil, err
	}
	return sim, cleanup, nil
}

type progRun struct {
	name    string
	prog    *spec.Program
	sim     *Sim
	err     error
	results []*ProcResult
}

// Check decides property prop at the given tier: the corpus program plus seeded random programs.
func Check(verifRoot, self, prop, tier string, seed uint64) (*Result, error) {
	start := time.Now()
	work, err := os.MkdirTemp("", "verif-convsim-")
	if err != nil {
		return nil, err
	}
	defer func() {
		if os.Getenv("VERIF_KEEP") != "" {
			fmt.Fprintln(os.Stderr, "kept scratch directory", work)
			return
		}
		os.RemoveAll(work)
	}()
	pluginBin := filepath.Join(work, "plugin.plain")
	if err := pipeline.BuildPlugin(pluginBin, ""); err != nil {
		return nil, err
	}
	findings, err := LoadFindings(verifRoot)
	if err != nil {
		return nil, err
	}
	var known []string
	for _, f := range findings {
		if f.Property == prop && f.Status == "known" {
			known = append(known, f.Signature)
		}
	}
	checks, steps, nRandom, rchecks := 400, 8, 2, 150
	if tier == "thorough" {
		checks, steps, nRandom, rchecks = 30000, 20, 40, 6000
		if prop == "C06" { // every history enumerates all single faults of its object
			checks, rchecks = 8000, 1500
		}
	}
	if v := os.Getenv("VERIF_CHECKS"); v != "" {
		if n, err := strconv.Atoi(v); err == nil {
			checks, rchecks = n, n
		}
	}
	if v := os.Getenv("VERIF_RANDOM_PROGRAMS"); v != "" {
		if n, err := strconv.Atoi(v); err == nil {
			nRandom = n
		}
	}
	sorted := spec.Corpus()
	sorted.Config.Sort = true // field order of the generated code follows names instead of declarations
	// the second variant also builds its time/duration attribute types through constructors
	tt, dt := *spec.SimTimeType, *spec.SimDurationType
	tt.TypeConstructor, dt.TypeConstructor = "UseSimTime()", "UseSimDuration()"
	sorted.Config.TimeType, sorted.Config.DurationType = &tt, &dt
	runs := []*progRun{{name: "corpus", prog: spec.Corpus()}, {name: "corpus-sorted", prog: sorted}}
	for i := 0; i < nRandom; i++ {
		ps := seed*1000003 + uint64(i)*7919 + 17
		runs = append(runs, &progRun{name: fmt.Sprintf("random-%d", ps), prog: spec.RandomProgram(ps, spec.RandomOpts{Conv: true})})
	}
	if only := os.Getenv("VERIF_ONLY_ROOTS"); only != "" {
		runs = runs[:2]
		runs[0].prog.Config.Types = strings.Split(only, ",")
		runs[1].prog.Config.Types = strings.Split(only, ",")
	}
	sem := make(chan struct{}, runtime.NumCPU()/2+1)
	var wg sync.WaitGroup
	for pi, pr := range runs {
		wg.Add(1)
		go func(pi int, pr *progRun) {
			defer wg.Done()
			pw := filepath.Join(work, fmt.Sprintf("prog%d", pi))
			os.MkdirAll(pw, 0o755)
			sem <- struct{}{}
			pr.sim, pr.err = Assemble(verifRoot, self, pluginBin, pr.prog, pw)
			<-sem
			if pr.err != nil {
				return
			}
			n := checks
			if pi > 1 {
				n = rchecks
			}
			pr.results = make([]*ProcResult, len(pr.sim.Roots))
			var wg2 sync.WaitGroup
			for i, r := range pr.sim.Roots {
				wg2.Add(1)
				go func(i int, r string) {
					defer wg2.Done()
					sem <- struct{}{}
					defer func() { <-sem }()
					pr.results[i] = pr.sim.RunProc(RunOpts{Prop: prop, Root: r, Seed: seed + uint64(pi)*7777 + uint64(i)*1000003, Checks: n, Steps: steps, Known: known})
				}(i, r)
			}
			wg2.Wait()
		}(pi, pr)
	}
	wg.Wait()

	res := &Result{}
	total := &Stats{Ops: map[string]int{}, Faults: map[string]int{}, Probes: map[string]int{}, KnownHits: map[string]int{}}
	cov := [2]int{}
	perProg := map[string]interface{}{}
	var dropped []string
	var corpusTrouble error
	outRoot := verifRoot
	if v := os.Getenv("VERIF_EVIDENCE_ROOT"); v != "" {
		outRoot = v
	}
	for pi, pr := range runs {
		if pr.err != nil {
			if pi <= 1 {
				return nil, pr.err // the corpus must build
			}
			// a random program whose generated code does not build is a C01 matter: dropped and counted
			dropped = append(dropped, pr.name+": "+firstLine(pr.err.Error()))
			continue
		}
		perRoot := map[string]interface{}{}
		if pi > 1 {
			// harness trouble on a seeded random program (a shape the harness itself cannot drive) must not
			// leave the whole check undecided: the program is dropped and listed; on the corpus it is fatal
			trouble := ""
			for _, r := range pr.results {
				if r.Err != nil {
					trouble = firstLine(r.Err.Error())
				}
			}
			if trouble != "" {
				dropped = append(dropped, pr.name+": harness trouble: "+trouble)
				continue
			}
		}
		for _, r := range pr.results {
			if r.Err != nil {
				// harness trouble on the corpus leaves the check undecided (exit 2) — unless another root
				// produced a replayable violation, which stands on its own
				if corpusTrouble == nil {
					corpusTrouble = &pipeline.BuildError{What: "simulator run failed (" + pr.name + "/" + r.Root + ")", Out: r.Err.Error()}
				}
				continue
			}
			if r.Stats != nil {
				total.Iterations += r.Stats.Iterations
				total.NClasses += r.Stats.NClasses
				for k, v := range r.Stats.Ops {
					total.Ops[k] += v
				}
				for k, v := range r.Stats.Faults {
					total.Faults[k] += v
				}
				for k, v := range r.Stats.Probes {
					total.Probes[k] += v
				}
				for k, v := range r.Stats.KnownHits {
					total.KnownHits[k] += v
				}
				if len(total.Samples) < 8 {
					total.Samples = append(total.Samples, r.Stats.Samples...)
				}
				perRoot[r.Root] = map[string]int{"iterations": r.Stats.Iterations, "history_classes": r.Stats.NClasses}
			}
			if c, ok := r.Cover["p_terraform.go"]; ok && pi <= 1 {
				// per-process coverage of the same file: the maximum is a lower bound of the union
				if c[0] > cov[0] {
					cov = c
				}
			}
			if r.Signature != "" {
				res.NViol++
				rp := &Replay{Property: prop, Engine: "convsim", Signature: r.Signature, Root: r.Root, Seed: seed, Tier: tier, Steps: steps,
					Program: pr.prog, FailFile: r.FailFile, Detail: r.Detail}
				dir := filepath.Join(outRoot, "evidence", "replay")
				os.MkdirAll(dir, 0o755)
				path := filepath.Join(dir, fmt.Sprintf("%s-%d-%s-%s.json", prop, seed, pr.name, r.Root))
				b, _ := json.MarshalIndent(rp, "", " ")
				if err := os.WriteFile(path, b, 0o644); err != nil {
					return nil, err
				}
				if len(res.Violations) < 8 {
					res.Violations = append(res.Violations, rp)
					res.Paths = append(res.Paths, path)
				}
			}
		}
		perProg[pr.name] = perRoot
	}
	if corpusTrouble != nil {
		if res.NViol == 0 {
			return nil, corpusTrouble
		}
		fmt.Fprintf(os.Stderr, "note: %s; the violations below come from the other roots\n", firstLine(corpusTrouble.Error()))
	}
	for _, f := range findings {
		if f.Property == prop && f.Status == "known" && total.KnownHits[f.Signature] > 0 {
			res.KnownLines = append(res.KnownLines, fmt.Sprintf("KNOWN-FINDING: property=%s %s %s (met %d times)", prop, f.Signature, f.What, total.KnownHits[f.Signature]))
		}
	}
	sort.Strings(res.KnownLines)
	res.Wall = time.Since(start).Seconds()
	samples := make([]interface{}, 0, len(total.Samples))
	for _, s := range total.Samples {
		samples = append(samples, s)
	}
	if len(samples) == 0 {
		samples = append(samples, "no history recorded")
	}
	res.Evidence = map[string]interface{}{
		"evaluations":             total.Iterations,
		"distinct_nontrivial":     total.NClasses,
		"samples":                 samples,
		"operations":              total.Ops,
		"faults_fired":            total.Faults,
		"probes":                  total.Probes,
		"known_findings_met":      total.KnownHits,
		"programs":                len(runs) - len(dropped),
		"random_programs_dropped": dropped,
		"per_program_and_root":    perProg,
		"rapid_checks_per_root":   map[string]int{"corpus": checks, "random": rchecks},
		"max_steps_per_history":   steps,
		"histories_per_hour":      int(float64(total.Iterations) / res.Wall * 3600),
		"simulated_time":          "none: the converters have no clock; progress is counted in operations",
		"generated_code_map_range_sites_behind_seam": runs[0].sim.MapRangeSites,
		"generated_code_map_range_sites_left_native": runs[0].sim.MapRangeNative,
		"generated_code_statements":                  cov[1],
		"generated_code_covered_lower":               cov[0],
		"exhaustive":                                 false,
		"components": map[string]interface{}{
			"real": []string{"generated converters and schema of each program (plugin built from /repo's working tree)", "gogo-generated structs",
				"terraform-plugin-framework value types v0.10.0", "tftypes + msgpack DynamicValue codec (restart)"},
			"stub": []string{"Terraform core / framework request plumbing (decode, plan derivation, persistence)", "provider glue owning the long-lived object and struct", "remote API (reference structs)"},
		},
	}
	return res, nil
}

func firstLine(s string) string {
	if i := strings.IndexByte(s, '\n'); i >= 0 {
		return s[:i]
	}
	return s
}

// ReplayFile re-executes a convsim replay file against the current tree.
func ReplayFile(verifRoot, self, path string) (string, string, error) {
	b, err := os.ReadFile(path)
	if err != nil {
		return "", "", err
	}
	rp := &Replay{}
	if err := json.Unmarshal(b, rp); err != nil {
		return "", "", err
	}
	sim, cleanup, err := BuildAll(verifRoot, self, rp.Program)
	if err != nil {
		return "", "", err
	}
	defer cleanup()
	ff := filepath.Join(sim.Work, "replay.fail")
	if err := os.WriteFile(ff, []byte(rp.FailFile), 0o644); err != nil {
		return "", "", err
	}
	r := sim.RunProc(RunOpts{Prop: rp.Property, Root: rp.Root, Steps: rp.Steps, FailFile: ff})
	if r.Err != nil {
		return "", "", &pipeline.BuildError{What: "replay run failed", Out: r.Err.Error()}
	}
	return r.Signature, r.Detail, nil
}

// Determinism runs the same (property, root, seed) process n times at several GOMAXPROCS values and
// reports whether every run produced the same history digest.
func Determinism(verifRoot, self string, props []string, n int) (map[string]interface{}, bool, error) {
	p := spec.Corpus()
	sim, cleanup, err := BuildAll(verifRoot, self, p)
	if err != nil {
		return nil, false, err
	}
	defer cleanup()
	ok := true
	report := map[string]interface{}{}
	procs := []int{1, 4, 16}
	for _, prop := range props {
		for _, root := range []string{"Nesting", "Oneofs", "Sink"} {
			for _, seed := range []uint64{3, 1234567} {
				var wg sync.WaitGroup
				digests := make([]uint64, n)
				iters := make([]int, n)
				var firstErr error
				var mu sync.Mutex
				sem := make(chan struct{}, runtime.NumCPU()/2+1)
				for i := 0; i < n; i++ {
					wg.Add(1)
					go func(i int) {
						defer wg.Done()
						sem <- struct{}{}
						defer func() { <-sem }()
						r := sim.RunProc(RunOpts{Prop: prop, Root: root, Seed: seed, Checks: 60, Steps: 8, GoMaxProcs: procs[i%len(procs)]})
						mu.Lock()
						defer mu.Unlock()
						if r.Err != nil && firstErr == nil {
							firstErr = r.Err
						}
						if r.Stats != nil {
							digests[i], iters[i] = r.Stats.Digest, r.Stats.Iterations
						}
					}(i)
				}
				wg.Wait()
				if firstErr != nil {
					return nil, false, firstErr
				}
				same := true
				for i := 1; i < n; i++ {
					if digests[i] != digests[0] || iters[i] != iters[0] {
						same = false
					}
				}
				key := fmt.Sprintf("%s/%s/seed=%d", prop, root, seed)
				report[key] = map[string]interface{}{"runs": n, "identical": same, "digest": fmt.Sprintf("%016x", digests[0]), "iterations": iters[0]}
				if !same || digests[0] == 0 {
					ok = false
				}
			}
		}
	}
	return report, ok, nil
}
