package gensim

import (
	"fmt"
	"sort"
	"strconv"
	"strings"

	"verif/spec"
)

// C14Configs derives logical configurations with >= 2 entries in every map- or set-valued option.
func C14Configs(p *spec.Program) []spec.Config {
	a := p.Config.Clone() // corpus config: sort off, same package
	b := p.Config.Clone()
	b.Sort = true
	b.TargetPackageName = "outpkg"
	b.DefaultPackageName = "example.com/api/types"
	b.ImportPathOverrides = map[string]string{"example.com/api/types": "example.com/moved/types", "example.com/other": "example.com/other/v2"}
	b.SchemaTypes = map[string]spec.SchemaType{
		"Leaf.Str":  {Type: "SimStrType", ValueType: "SimStrValue", CastToType: "string", CastFromType: "string"},
		"Sink.Name": {Type: "SimStrType", ValueType: "SimStrValue", CastToType: "string", CastFromType: "string"},
	}
	// both key forms for one field: the full path must win over Message.Field whatever the map order
	b.Validators = map[string][]string{"Sink.Name": {"UseSimValidator()"}, "Sink.Spec.Name": {"UsePathValidator()"}, "Mid.Name": {"UseTypeValidator()"},
		"Sink.Status.Str": {"UsePathValidator()"}, "Leaf.Str": {"UseTypeValidator()", "UseSimValidator()"}}
	b.PlanModifiers = map[string][]string{"Sink.Spec.Name": {"PathModifier()"}, "Mid.Name": {"TypeModifier()"}, "Leaf.Num": {"TypeModifier()"}, "Sink.Status.Num": {"PathModifier()"}}
	b.NameOverrides = map[string]string{"Naming.Overridden": "renamed", "Leaf.Flag": "flag_x", "Sink.Status.Flag": "flag_by_path", "Sink.Spec.Name": "name_by_path", "Mid.Name": "name_by_type"}
	// a message-typed field and fields below it in the same flag list (the parent does not imply the child)
	b.ComputedFields = append(b.ComputedFields, "Sink.Spec", "Sink.Spec.Leaf", "Sink.Spec.Leaf.Str", "Nesting.PtrList", "Nesting.PtrList.Name")
	b.RequiredFields = append(b.RequiredFields, "Nesting.Val", "Nesting.Val.Name", "Sink.Index", "Sink.Index.Num")
	b.SensitiveFields = append(b.SensitiveFields, "Sink.Parts", "Sink.Parts.Name", "Sink.Parts.Leaf.Str")
	// fields several levels down whose ancestors are NOT listed (nothing above them is implied either)
	b.ComputedFields = append(b.ComputedFields, "DeepNest.Out.Inner.Leaf.Str", "DeepNest.OutV.Inners.Name", "DeepNest.EmbOne.EvLeaf.Num")
	b.RequiredFields = append(b.RequiredFields, "DeepNest.OutV.ByKey.LeafV.Num", "DeepNest.Out.WhichMid.Leaf.Flag")
	b.SensitiveFields = append(b.SensitiveFields, "DeepNest.Out.Inner.LeafMap.Str", "DeepNest.EmbList.EvLeaf.Str")
	// injected fields with none of the flags, with all of them, with validators and plan modifiers
	if b.InjectedFields == nil {
		b.InjectedFields = map[string][]spec.Injected{}
	}
	b.InjectedFields["Sink"] = append(b.InjectedFields["Sink"],
		spec.Injected{Name: "bare", Type: "github.com/hashicorp/terraform-plugin-framework/types.StringType"},
		spec.Injected{Name: "all_flags", Type: "github.com/hashicorp/terraform-plugin-framework/types.BoolType", Required: true, Computed: true, Optional: true,
			Validators: []string{"UseSimValidator()", "UseSimValidator()"}, PlanModifiers: []string{"PathModifier()", "PathModifier()"}})
	b.InjectedFields["Sink.Spec"] = append(b.InjectedFields["Sink.Spec"],
		spec.Injected{Name: "bare_nested", Type: "github.com/hashicorp/terraform-plugin-framework/types.Int64Type"})
	tt, dt := *spec.SimTimeType, *spec.SimDurationType
	tt.TypeConstructor, dt.TypeConstructor = "UseSimTime()", "example.com/x/wrappers.UseDuration()"
	b.TimeType, b.DurationType = &tt, &dt
	// keys in a syntax the plugin does not define (wildcards): they match nothing, in any order
	for _, k := range []string{"Sink.*.Name", "*.Spec.Name", "Sink.Spec.*", "*.*.Name", "Sink.?pec.Name", "Sink.[S]pec.Name",
		// aimed at a field that has no exact key of its own (Sink.Spec.Tags), several of equal length
		"Sink.*.Tags", "*.Spec.Tags", "Sink.Spec.T*", "Sink.S*.Tags", "*.Tags", "Mid.*"} {
		b.Validators[k] = []string{"Wild" + strings.Map(func(r rune) rune {
			if r >= 'A' && r <= 'z' {
				return r
			}
			return -1
		}, k) + "()"}
		b.PlanModifiers[k] = []string{"WildModifier" + fmt.Sprint(len(k)) + "()"}
		b.NameOverrides[k] = "wild_" + fmt.Sprint(len(b.NameOverrides))
		b.SchemaTypes[k] = spec.SimInt32Override
	}
	// keys spelled with the default package in front (its import path or its last element): no option
	// defines that spelling, they match nothing — several per option
	for i, k := range []string{"types.Sink.Name", "types.Sink.Count", "example.com/api/types.Sink.Ratio", "example.com/api/types.Leaf.Str", "types.Mid.Name"} {
		b.Validators[k] = []string{fmt.Sprintf("Qualified%dValidator()", i)}
		b.PlanModifiers[k] = []string{fmt.Sprintf("Qualified%dModifier()", i)}
		b.NameOverrides[k] = fmt.Sprintf("qualified_%d", i)
		b.SchemaTypes[k] = spec.SimInt32Override
		b.ComputedFields = append(b.ComputedFields, k)
		b.ExcludeFields = append(b.ExcludeFields, k)
	}
	b.CustomTypes = map[string]string{"Sink.Ratio": "CustomRatio", "Scalars.FBool": "CustomBool",
		"Sink.On": "example.com/x/wrappers.Traits", "Sink.Status.Str": "example.com/x/wrappers.ByPath", "Leaf.Str": "example.com/x/wrappers.ByType"}
	// no exact key for the qualified types: shorter, overlapping keys must not be picked by iteration order
	b.Suffixes = map[string]string{"CustomRatio": "Ratio", "CustomBool": "BoolSpecial", "Traits": "AnyTraits", "wrappers.Traits": "WrappersTraits",
		"x/wrappers.Traits": "XWrappersTraits", "ByPath": "P", "wrappers.ByPath": "WP"}
	// chained entries: the value of one is the key of the next (a lookup is a single step)
	b.ImportPathOverrides["example.com/moved/types"] = "example.com/v2/types"
	b.ImportPathOverrides["example.com/v2/types"] = "example.com/fork/v2/types"
	b.ImportPathOverrides["example.com/fork/v2/types"] = "example.com/final/types"
	b.ImportPathOverrides["example.com/y/wrappers"] = "example.com/z/wrappers"
	b.ImportPathOverrides["example.com/z/wrappers"] = "example.com/zz/wrappers"
	b.ImportPathOverrides["example.com/api"] = "example.com/moved"
	b.ImportPathOverrides["types"] = "example.com/short/types"
	b.ImportPathOverrides["example.com/x/wrappers"] = "example.com/y/wrappers"
	// schema_types entries that share a `type` with time_type / duration_type but bring constructors of
	// their own, while time_type / duration_type have none (other time fields have no entry)
	c := p.Config.Clone()
	c.Sort = true
	tc, dc := *spec.SimTimeType, *spec.SimDurationType
	c.TimeType, c.DurationType = &tc, &dc
	c.SchemaTypes = map[string]spec.SchemaType{}
	for i, k := range []string{"Temporal.TimeV", "Temporal.TimeP", "Sink.Created", "Oneofs.ChT"} {
		st := tc
		st.TypeConstructor = []string{"UseSimTime()", "UseSimTimeNano()", "UseSimTimeSeconds()", "example.com/x/wrappers.UseTime()"}[i]
		c.SchemaTypes[k] = st
	}
	for i, k := range []string{"Temporal.DurV", "Temporal.DurP", "Sink.Grace"} {
		st := dc
		st.TypeConstructor = []string{"UseSimDuration()", "UseSimDurationMillis()", "example.com/x/wrappers.UseDuration()"}[i]
		c.SchemaTypes[k] = st
	}
	c.SchemaTypes["Scalars.FInt32"] = spec.SimInt32Override
	// `types` entries spelled with a package qualifier (the plugin defines no such spelling: they select
	// nothing), with different qualifiers, and no default package name
	d := p.Config.Clone()
	d.DefaultPackageName, d.TargetPackageName = "", ""
	for i, t := range p.Config.Types {
		if i < 6 {
			d.Types = append(d.Types, []string{"types.", "alpha.", "example.com/beta/v1.", "p."}[i%4]+t)
		}
	}
	// the list options written in flow style on one (very long) line: 400 entries that match nothing
	// around the real ones
	e := p.Config.Clone()
	e.FlowLists = true
	pad := func(l []string, tag string) []string {
		out := append([]string{}, l...)
		for i := 0; i < 400; i++ {
			out = append(out, fmt.Sprintf("Padding%s%03d.Field", tag, i))
		}
		return out
	}
	e.ExcludeFields, e.ComputedFields = pad(e.ExcludeFields, "X"), pad(e.ComputedFields, "C")
	e.RequiredFields, e.SensitiveFields = pad(e.RequiredFields, "R"), pad(e.SensitiveFields, "S")
	return []spec.Config{a, b, c, d, e}
}

// C14ConfigsFor derives, for any program, two logical configurations with >= 2 entries in every map-
// or set-valued option and both key forms (full path and Message.Field) aimed at one field.
func C14ConfigsFor(p *spec.Program) []spec.Config {
	a := p.Config.Clone()
	b := p.Config.Clone()
	b.Sort = !a.Sort
	b.TargetPackageName = "outpkg"
	b.DefaultPackageName = "example.com/api/types"
	b.ImportPathOverrides = map[string]string{"example.com/api/types": "example.com/moved/types", "example.com/other": "example.com/other/v2"}
	// a field reachable as Root.F.X and M.X
	var pathKey, typeKey string
	for _, rn := range p.Config.Types {
		r := p.Msg(rn)
		for _, f := range r.Fields {
			if f.Kind != spec.KMessage || f.Embed || f.Oneof != "" {
				continue
			}
			for _, x := range p.Msg(f.Ref).Fields {
				if x.Kind != spec.KMessage && x.Oneof == "" && x.Card == "" {
					pathKey, typeKey = rn+"."+f.Name+"."+x.Name, f.Ref+"."+x.Name
					break
				}
			}
			if pathKey != "" {
				break
			}
		}
		if pathKey != "" {
			break
		}
	}
	others := otherFields(p, append(append([]string{typeKey}, b.ExcludeFields...), keysOf(b.NameOverrides)...), 4)
	b.Validators, b.PlanModifiers = map[string][]string{}, map[string][]string{}
	if b.NameOverrides == nil {
		b.NameOverrides = map[string]string{}
	}
	if pathKey != "" {
		b.Validators[pathKey], b.Validators[typeKey] = []string{"UsePathValidator()"}, []string{"UseTypeValidator()", "UseSimValidator()"}
		b.PlanModifiers[pathKey], b.PlanModifiers[typeKey] = []string{"PathModifier()"}, []string{"TypeModifier()"}
		b.NameOverrides[pathKey], b.NameOverrides[typeKey] = "name_by_path", "name_by_type"
	}
	for i, o := range others {
		switch i {
		case 0:
			b.Validators[o] = []string{"UseSimValidator()", "UseOtherValidator()"}
			b.PlanModifiers[o] = []string{"github.com/hashicorp/terraform-plugin-framework/tfsdk.RequiresReplace()", "github.com/hashicorp/terraform-plugin-framework/tfsdk.UseStateForUnknown()"}
		case 1:
			b.Validators[o] = []string{"UseSimValidator()"}
		case 2:
			b.SchemaTypes = map[string]spec.SchemaType{o: {Type: "SimStrType", ValueType: "SimStrValue", CastToType: "string", CastFromType: "string"}}
		case 3:
			b.SchemaTypes[o] = spec.SchemaType{Type: "SimStrType", ValueType: "SimStrValue", CastToType: "string", CastFromType: "string"}
		}
	}
	if pathKey != "" {
		b.CustomTypes = map[string]string{pathKey: "example.com/x/wrappers.ByPath", typeKey: "example.com/x/wrappers.ByType"}
		b.Suffixes = map[string]string{"ByPath": "P", "wrappers.ByPath": "WP", "x/wrappers.ByPath": "XWP", "ByType": "T", "wrappers.ByType": "WT"}
		b.ImportPathOverrides["example.com/x/wrappers"] = "example.com/y/wrappers"
		b.ImportPathOverrides["example.com/api"] = "example.com/moved"
	}
	if len(b.Types) > 1 {
		if b.InjectedFields == nil {
			b.InjectedFields = map[string][]spec.Injected{}
		}
		b.InjectedFields[b.Types[1]] = []spec.Injected{
			{Name: "id", Type: "github.com/hashicorp/terraform-plugin-framework/types.StringType", Computed: true},
			{Name: "extra", Type: "github.com/hashicorp/terraform-plugin-framework/types.Int64Type", Optional: true}}
	}
	return []spec.Config{a, b}
}

func keysOf(m map[string]string) []string {
	var r []string
	for k := range m {
		r = append(r, k)
	}
	sort.Strings(r)
	return r
}

// C14Cases: per configuration one identity reference and nSched perturbed runs.
func C14Cases(p *spec.Program, cfgs []spec.Config, seed uint64, tier string, nSched int) []*Case {
	r := NewRand(seed)
	var cases []*Case
	for ci, cfg := range cfgs {
		// the channel assignment is part of the case, not of the run
		split := map[string]spec.Channel{}
		for _, d := range spec.DualOptions {
			if ci%2 == 1 && (d.Name != "sort") && r.Bool() {
				split[d.Name] = spec.ChCLI
			}
		}
		// parameters the plugin does not define (the YAML spellings of option names, junk) are part of a
		// request like any other: they ride along on every run of odd-numbered configurations
		var junk []string
		if ci%2 == 1 {
			junk = []string{"sensitive_fields=Junk.A+Junk.B", "duration_custom_type=JunkDuration", "exclude=Junk.C", "computed=Junk.D", "required=Junk.E", "Types=Junk", "unknown_option=1"}
		}
		if ci%2 == 1 {
			// an empty entry inside every list (`a++b`, `- ""`): it matches nothing wherever it stands
			cfg = cfg.Clone()
			cfg.Types = append(cfg.Types, "")
			cfg.ExcludeFields = append(cfg.ExcludeFields, "")
			cfg.ComputedFields = append(cfg.ComputedFields, "")
			cfg.RequiredFields = append(cfg.RequiredFields, "")
			cfg.SensitiveFields = append(cfg.SensitiveFields, "")
			// entries that look like list arithmetic (`-X`, `!X`): the plugin defines no such syntax, they are
			// names that match nothing, next to the plain entry they resemble
			dashed := func(l []string) []string {
				out := append([]string{}, l...)
				for i, x := range l {
					if x != "" && i < 3 {
						out = append(out, "-"+x, "!"+x)
					}
				}
				return out
			}
			cfg.ExcludeFields, cfg.ComputedFields = dashed(cfg.ExcludeFields), dashed(cfg.ComputedFields)
			cfg.RequiredFields, cfg.SensitiveFields = dashed(cfg.RequiredFields), dashed(cfg.SensitiveFields)
		}
		ref := runFrom(cfg.Render(split, nil))
		ref.Params = append(ref.Params, junk...)
		ref.Sim = &Schedule{MapMode: "identity", ClockEpoch: 1_000_000_000, ClockStepNs: 1000}
		ref.Note = "reference: identity schedule, canonical config order, unchunked stdin"
		// history independence: the same request after OTHER requests ran in the same world (same TMPDIR,
		// HOME, cache directories, working directory) — requests that differ in one option only
		if ci < 3 {
			var before []RunSpec
			for vi, mut := range []func(c *spec.Config){
				func(c *spec.Config) { c.TargetPackageName = "otherpkg" },
				func(c *spec.Config) { c.DefaultPackageName = "example.com/elsewhere/types" },
				func(c *spec.Config) { c.Sort = !c.Sort },
				func(c *spec.Config) { c.UseStateForUnknownByDefault = !c.UseStateForUnknownByDefault },
				func(c *spec.Config) {
					if len(c.ExcludeFields) > 1 {
						c.ExcludeFields = c.ExcludeFields[1:]
					}
				},
			} {
				o := cfg.Clone()
				mut(&o)
				b := runFrom(o.Render(split, nil))
				b.Params = append(b.Params, junk...)
				b.Note = fmt.Sprintf("earlier request %d: one option changed", vi)
				before = append(before, b)
			}
			run := runFrom(cfg.Render(split, nil))
			run.Params = append(run.Params, junk...)
			run.Sim = &Schedule{MapMode: "identity", ClockEpoch: 1_000_000_000, ClockStepNs: 1000}
			run.Before = before
			run.Note = "the reference request after five other requests in the same world"
			refc := ref
			cases = append(cases, &Case{Property: "C14", Clause: fmt.Sprintf("history-independent/cfg%d", ci), Seed: seed, Tier: tier, Program: p,
				Ref: &refc, Run: run, Expect: Expect{Kind: "identical-stdout"}})
		}
		for i := 0; i < nSched; i++ {
			rr := r.Fork()
			var run RunSpec
			switch i {
			case 0:
				run = runFrom(cfg.Render(split, func(site string, n int) []int { // reverse every config order
					p := make([]int, n)
					for j := range p {
						p[j] = n - 1 - j
					}
					return p
				}))
				run.Sim = &Schedule{MapMode: "reverse", ClockEpoch: 1_000_000_000, ClockStepNs: 1000}
				run.Note = "reverse at every site"
			case 1:
				run = runFrom(cfg.Render(split, func(site string, n int) []int { // rotate by one
					p := make([]int, n)
					for j := range p {
						p[j] = (j + 1) % n
					}
					return p
				}))
				run.Sim = &Schedule{MapMode: "rotate", ClockEpoch: 1_000_000_000, ClockStepNs: 1000}
				run.Note = "rotate by one at every site"
			default:
				run = runFrom(cfg.Render(split, randOrder(rr)))
				run.Sim = &Schedule{MapMode: "random", Seed: rr.Uint64(), ClockEpoch: 946684800 + int64(rr.Intn(1_500_000_000)), ClockStepNs: int64(1 + rr.Intn(1_000_000_000))}
				run.Env = []string{"GOMAXPROCS=" + strconv.Itoa([]int{1, 4, 16}[rr.Intn(3)]), "GOGC=" + []string{"off", "1", "100"}[rr.Intn(3)]}
				switch rr.Intn(4) {
				case 0:
					run.Chunks = []int{1 + rr.Intn(7)}
				case 1:
					run.Chunks = []int{1 + rr.Intn(4096), 1 + rr.Intn(64), 1 + rr.Intn(100000)}
				case 2:
					run.Chunks = []int{1 + rr.Intn(200)}
				}
				run.Note = "seeded schedule"
			}
			if len(junk) > 0 {
				pos := rr.Intn(len(run.Params) + 1)
				jp := append([]string{}, junk...)
				for a := len(jp) - 1; a > 0; a-- {
					b := rr.Intn(a + 1)
					jp[a], jp[b] = jp[b], jp[a]
				}
				run.Params = append(append(append([]string{}, run.Params[:pos]...), jp...), run.Params[pos:]...)
			}
			rf := ref
			cases = append(cases, &Case{Property: "C14", Clause: fmt.Sprintf("repeatable/cfg%d/sched%d", ci, i), Seed: seed, Tier: tier,
				Program: p, Ref: &rf, Run: run, Expect: Expect{Kind: "identical-stdout"}})
		}
	}
	return cases
}

// MultiFile returns a copy of p whose request generates several files in one invocation.
func MultiFile(p *spec.Program, n int) *spec.Program {
	q := cloneProgram(p)
	for i := 0; i < n; i++ {
		a, b := fmt.Sprintf("Extra%dAlpha", i), fmt.Sprintf("Extra%dBeta", i)
		q.MoreFiles = append(q.MoreFiles, spec.ExtraFile{File: fmt.Sprintf("more%d.proto", i), Messages: []spec.Message{
			{Name: a, Fields: []spec.Field{{Name: "XStr", Num: 1, Kind: spec.KString}, {Name: "XNums", Num: 2, Kind: spec.KInt64, Card: spec.CardList}}},
			{Name: b, Fields: []spec.Field{{Name: "YFlag", Num: 1, Kind: spec.KBool}, {Name: "YMap", Num: 2, Kind: spec.KString, Card: spec.CardMap}}},
		}})
		q.Config.Types = append(q.Config.Types, a, b)
	}
	return q
}

// ForeignProgram: a file whose messages reference message types of OTHER Go packages, several of which
// share the last element of their import path (alpha/v1, beta/v1, delta/v1; eps/types, zeta/types) — the
// qualifiers the generator hands out for them must not depend on anything but the request.
func ForeignProgram() *spec.Program {
	p := &spec.Program{File: "p.proto", Package: "p"}
	thing := func(prefix string) []spec.Message {
		return []spec.Message{
			{Name: "Thing", Fields: []spec.Field{{Name: prefix + "Str", Num: 1, Kind: spec.KString}, {Name: prefix + "Num", Num: 2, Kind: spec.KInt64}}},
			{Name: "Other", Fields: []spec.Field{{Name: prefix + "Flag", Num: 1, Kind: spec.KBool}, {Name: prefix + "Tags", Num: 2, Kind: spec.KString, Card: spec.CardList}}},
		}
	}
	for _, ff := range [][3]string{
		{"alpha/v1/alpha.proto", "alpha.v1", "example.com/alpha/v1"},
		{"beta/v1/beta.proto", "beta.v1", "example.com/beta/v1"},
		{"gamma/v2/gamma.proto", "gamma.v2", "example.com/gamma/v2"},
		{"delta/v1/delta.proto", "delta.v1", "example.com/delta/v1"},
		{"eps/types/eps.proto", "eps.types", "example.com/eps/types"},
		{"zeta/types/zeta.proto", "zeta.types", "example.com/zeta/types"},
	} {
		pre := strings.ToUpper(ff[1][:1]) + ff[1][1:strings.Index(ff[1], ".")]
		p.Foreign = append(p.Foreign, spec.ForeignFile{File: ff[0], ProtoPackage: ff[1], GoPackage: ff[2], Messages: thing(pre)})
	}
	m := func(name string, ref string, card string, num int32, nullable bool) spec.Field {
		return spec.Field{Name: name, Num: num, Kind: spec.KMessage, Ref: ref, Card: card, Nullable: nullable}
	}
	p.Messages = []spec.Message{
		{Name: "Local", Fields: []spec.Field{{Name: "LStr", Num: 1, Kind: spec.KString}}},
		{Name: "Holder", Fields: []spec.Field{
			{Name: "Name", Num: 1, Kind: spec.KString},
			m("Alpha", "alpha.v1.Thing", "", 2, true), m("Zeta", "zeta.types.Thing", "", 3, true),
			m("Gammas", "gamma.v2.Thing", spec.CardList, 4, true), m("ByKey", "delta.v1.Thing", spec.CardMap, 5, true),
			m("Eps", "eps.types.Other", "", 6, false), m("Beta", "beta.v1.Thing", "", 7, true), m("Local", "Local", "", 8, true),
		}},
		{Name: "Second", Fields: []spec.Field{
			m("B", "beta.v1.Other", "", 1, true), m("A", "alpha.v1.Other", "", 2, true), m("D", "delta.v1.Other", spec.CardList, 3, true),
			{Name: "Note", Num: 4, Kind: spec.KString},
		}},
	}
	p.Config = spec.Config{Types: []string{"Holder", "Second", "Local"}}
	return p
}

// ForeignConfigs: without and with import path overrides / a separate target package.
func ForeignConfigs(p *spec.Program) []spec.Config {
	a := p.Config.Clone()
	b := p.Config.Clone()
	b.Sort = true
	b.TargetPackageName = "outpkg"
	b.DefaultPackageName = "example.com/api/p"
	b.ImportPathOverrides = map[string]string{"v1": "example.com/moved/v1", "example.com/alpha/v1": "example.com/moved/alpha/v1",
		"types": "example.com/moved/types", "example.com/zeta/types": "example.com/zz/types", "v2": "example.com/moved/v2"}
	b.ComputedFields = []string{"Holder.Alpha", "Holder.Alpha.AlphaStr", "Thing.BetaNum"}
	b.ExcludeFields = []string{"Other.EpsTags"}
	return []spec.Config{a, b}
}

// FailingProgram: several selected types that cannot be mapped in one request (time / duration without
// time_type / duration_type, an integer map key), next to types that can. Whatever the plugin answers —
// files, error field — is part of the response.
func FailingProgram() *spec.Program {
	p := c18Base()
	for i, msg := range []string{"RootA", "RootC", "RootE", "Shared", "RootD2", "D12", "SelInner"} {
		k := badKinds[(i*3)%len(badKinds)]
		if k.field("x", 1).Ref != "" {
			k = badKinds[0]
		}
		p, _ = withBad(p, badPos{name: "c14", msg: msg, first: i%2 == 0}, k)
	}
	return p
}
