package gensim

import (
	"fmt"
	"strings"

	"gopkg.in/yaml.v3"

	"verif/spec"
)

// c16Config is a configuration in which every dual-channel option is set and changes the output.
func c16Config(p *spec.Program, sortOn bool) spec.Config {
	c := p.Config.Clone()
	c.Sort = sortOn
	if c.TargetPackageName == "" {
		c.TargetPackageName = "outpkg"
	}
	if c.DefaultPackageName == "" {
		c.DefaultPackageName = "example.com/api/types"
	}
	// keys with lower_snake components and deep paths, in every list option
	for _, m := range p.Messages {
		for _, f := range m.Fields {
			if strings.Contains(f.Name, "_") && !f.Embed && f.Oneof == "" {
				k := m.Name + "." + f.Name
				switch len(k) % 3 {
				case 0:
					c.ComputedFields = appendUnique(c.ComputedFields, k)
				case 1:
					c.RequiredFields = appendUnique(c.RequiredFields, k)
				default:
					c.SensitiveFields = appendUnique(c.SensitiveFields, k)
				}
			}
		}
	}
	return c
}

func appendUnique(l []string, k string) []string {
	for _, x := range l {
		if x == k {
			return l
		}
	}
	return append(append([]string{}, l...), k)
}

// c16ConfigSamePkg: option values that coincide (struct package and target package have the same
// name, the situation test/config.yaml comments on).
func c16ConfigSamePkg(p *spec.Program) spec.Config {
	c := p.Config.Clone()
	c.Sort = true
	c.TargetPackageName = "samepkg"
	c.DefaultPackageName = "samepkg"
	return c
}

// c16ConfigCoincide: scalar option values that coincide with names used elsewhere in the configuration —
// the default package is called like the message most list entries start with, the target package like
// another selected type.
func c16ConfigCoincide(p *spec.Program) spec.Config {
	c := p.Config.Clone()
	c.Sort = true
	count := map[string]int{}
	for _, l := range [][]string{c.ExcludeFields, c.ComputedFields, c.RequiredFields, c.SensitiveFields} {
		for _, k := range l {
			if i := strings.Index(k, "."); i > 0 {
				count[k[:i]]++
			}
		}
	}
	best := ""
	for _, t := range c.Types {
		if best == "" || count[t] > count[best] {
			best = t
		}
	}
	c.DefaultPackageName = best
	c.TargetPackageName = strings.ToLower(c.Types[len(c.Types)-1])
	return c
}

// ConfigPathShapes: ways of naming a readable configuration file.
var ConfigPathShapes = []string{"absolute", "subdir", "dotdot", "symlink", "symlink-chain", "symlink-dir", "hardlink", "spaces", "noext", "hidden", "readonly", "json-ext", "upper-ext"}

func allOn(ch spec.Channel) map[string]spec.Channel {
	m := map[string]spec.Channel{}
	for _, d := range spec.DualOptions {
		m[d.Name] = ch
	}
	return m
}

func runFrom(r spec.Rendered) RunSpec {
	rs := RunSpec{Params: r.Params}
	if r.YAML != "" {
		rs.Config = &ConfigFile{Mode: "file", Content: r.YAML}
	}
	return rs
}

func randOrder(r *Rand) spec.Order {
	seed := r.Uint64()
	return func(site string, n int) []int {
		h := uint64(1469598103934665603)
		for i := 0; i < len(site); i++ {
			h = (h ^ uint64(site[i])) * 1099511628211
		}
		return NewRand(seed ^ h).Perm(n)
	}
}

// otherFields returns up to n Message.Field keys of the program that are not in avoid.
func otherFields(p *spec.Program, avoid []string, n int) []string {
	av := map[string]bool{}
	for _, a := range avoid {
		av[a] = true
	}
	var out []string
	for _, m := range p.Messages {
		for _, f := range m.Fields {
			k := m.Name + "." + f.Name
			if f.Embed || f.Oneof != "" || av[k] {
				continue
			}
			out = append(out, k)
			if len(out) == n {
				return out
			}
		}
	}
	return out
}

// decoy returns a config whose dual option `name` carries a different (wrong) value.
func decoy(p *spec.Program, c spec.Config, name string) spec.Config {
	d := c.Clone()
	switch name {
	case "types":
		d.Types = append([]string{}, c.Types[:(len(c.Types)+1)/2]...)
		if len(d.Types) == len(c.Types) { // a single root: select another message instead
			for _, m := range p.Messages {
				if m.Name != c.Types[0] && len(m.Fields) > 0 {
					d.Types = []string{m.Name}
					break
				}
			}
		}
	case "exclude_fields":
		d.ExcludeFields = otherFields(p, append(append([]string{}, c.ExcludeFields...), excludedUnsafe(p)...), 2)
	case "computed_fields":
		d.ComputedFields = otherFields(p, c.ComputedFields, 1)
	case "required_fields":
		d.RequiredFields = otherFields(p, c.RequiredFields, 2)
	case "sensitive_fields":
		d.SensitiveFields = otherFields(p, c.SensitiveFields, 1)
	case "default_package_name":
		d.DefaultPackageName = "decoy.example/pkg"
	case "target_package_name":
		d.TargetPackageName = "decoypkg"
	case "duration_custom_type":
		d.DurationCustomType = "NotADuration"
	case "sort":
		d.Sort = !c.Sort
	}
	return d
}

// excludedUnsafe lists fields whose exclusion would leave a message without fields (never used as decoys).
func excludedUnsafe(p *spec.Program) []string {
	var out []string
	for _, m := range p.Messages {
		if len(m.Fields) <= 2 {
			for _, f := range m.Fields {
				out = append(out, m.Name+"."+f.Name)
			}
		}
	}
	return out
}

// mergeYAMLDecoy renders: YAML from the decoy config (all dual options on YAML), CLI from the truth
// for option `name` only.
func precedenceRun(p *spec.Program, truth spec.Config, name string) RunSpec {
	dec := decoy(p, truth, name)
	y := dec.Render(allOn(spec.ChYAML), nil)
	split := allOn(spec.ChNone)
	split[name] = spec.ChCLI
	// `sort=false` must be expressible on the CLI even though false is the zero value
	cli := truth.Render(split, nil)
	if name == "sort" && !truth.Sort {
		cli.Params = append(cli.Params, "sort=false")
	}
	return RunSpec{Config: &ConfigFile{Mode: "file", Content: y.YAML}, Params: cli.Params,
		Note: "precedence: YAML carries a decoy for " + name + ", CLI the truth"}
}

func yamlParses(s string) bool {
	var v interface{}
	return yaml.Unmarshal([]byte(s), &v) == nil
}

// C16Cases builds the case list for one program.
func C16Cases(p *spec.Program, seed uint64, tier string, nSplits int) ([]*Case, map[string]int) {
	r := NewRand(seed)
	var cases []*Case
	kinds := map[string]int{}
	add := func(clause string, ref *RunSpec, run RunSpec, ex Expect) {
		kinds[clause]++
		cases = append(cases, &Case{Property: "C16", Clause: clause, Seed: seed, Tier: tier, Program: p, Ref: ref, Run: run, Expect: ex})
	}
	for variant := 0; variant < 4; variant++ {
		cfg := c16Config(p, variant == 0)
		if variant == 2 {
			cfg = c16ConfigSamePkg(p)
		}
		if variant == 3 {
			cfg = c16ConfigCoincide(p)
		}
		refR := runFrom(cfg.Render(allOn(spec.ChYAML), nil))
		refR.Note = "reference: every option in the YAML file"
		ref := &refR

		// all dual options on the CLI
		add("channel-equivalence/all-cli", ref, runFrom(cfg.Render(allOn(spec.ChCLI), nil)), Expect{Kind: "identical-file"})
		// both channels, same values
		add("channel-equivalence/both", ref, runFrom(cfg.Render(allOn(spec.ChBoth), nil)), Expect{Kind: "identical-file"})
		// each option alone on the CLI
		for _, d := range spec.DualOptions {
			s := allOn(spec.ChYAML)
			s[d.Name] = spec.ChCLI
			run := runFrom(cfg.Render(s, nil))
			if d.Name == "sort" && !cfg.Sort {
				run.Params = append(run.Params, "sort=false")
			}
			run.Note = "only " + d.Name + " on the CLI"
			add("channel-equivalence/single-cli:"+d.Name, ref, run, Expect{Kind: "identical-file"})
		}
		// seeded splits, with seeded entry order in `+` lists and YAML lists
		for i := 0; i < nSplits; i++ {
			s := map[string]spec.Channel{}
			for _, d := range spec.DualOptions {
				s[d.Name] = spec.Channel(r.Intn(3))
			}
			run := runFrom(cfg.Render(s, randOrder(r)))
			run.Note = fmt.Sprintf("seeded split %d", i)
			add("channel-equivalence/split", ref, run, Expect{Kind: "identical-file"})
		}
		// lists are sets: a repeated entry (right at the start, in the middle, at the end) changes nothing,
		// on either channel
		{
			dup := func(l []string) []string {
				if len(l) == 0 {
					return l
				}
				out := []string{l[0], l[0]}
				out = append(out, l[1:]...)
				if len(l) > 2 {
					out = append(out, l[1], l[len(l)-1], l[len(l)-1])
				}
				return out
			}
			dc := cfg.Clone()
			dc.Types, dc.ExcludeFields, dc.ComputedFields = dup(dc.Types), dup(dc.ExcludeFields), dup(dc.ComputedFields)
			dc.RequiredFields, dc.SensitiveFields = dup(dc.RequiredFields), dup(dc.SensitiveFields)
			for _, ch := range []spec.Channel{spec.ChCLI, spec.ChYAML, spec.ChBoth} {
				run := runFrom(dc.Render(allOn(ch), nil))
				run.Note = "every list with repeated entries"
				add(fmt.Sprintf("channel-equivalence/repeated-entries:%d", ch), ref, run, Expect{Kind: "identical-file"})
			}
		}
		// the same file named in other ways (whatever names a readable file is the YAML channel)
		if refR.Config != nil {
			for _, via := range ConfigPathShapes {
				run := refR
				cf := *refR.Config
				cf.Via = via
				run.Config = &cf
				run.Note = "the reference configuration file named through: " + via
				add("channel-equivalence/config-path:"+via, ref, run, Expect{Kind: "identical-file"})
			}
		}
		// a very large file: the options sit behind 300 KiB of comments / inside a list of thousands of entries
		if variant == 0 {
			big := refR
			pad := strings.Repeat("# padding padding padding padding padding padding padding padding\n", 5000)
			big.Config = &ConfigFile{Mode: "file", Content: "---\n" + pad + strings.TrimPrefix(refR.Config.Content, "---\n")}
			big.Note = "the same YAML behind 300 KiB of comments"
			add("channel-equivalence/large-config:leading-comments", ref, big, Expect{Kind: "identical-file"})
			lc := cfg.Clone()
			var junk []string
			for i := 0; i < 6000; i++ {
				junk = append(junk, fmt.Sprintf("Padding%04d.Field", i))
			}
			lc.ExcludeFields = append(junk, lc.ExcludeFields...)
			lr := runFrom(lc.Render(allOn(spec.ChYAML), nil))
			lr.Note = "exclude_fields with 6000 entries that match nothing in front of the real ones"
			add("channel-equivalence/large-config:long-list", ref, lr, Expect{Kind: "identical-file"})
		}
		// precedence (an option the configuration leaves unset cannot be carried by the CLI — an empty
		// parameter means "not given" — so there is nothing to take precedence)
		for _, d := range spec.DualOptions {
			if _, _, _, set := cfg.DualValue(d.Name); !set && d.Name != "sort" {
				continue
			}
			add("cli-precedence:"+d.Name, ref, precedenceRun(p, cfg, d.Name), Expect{Kind: "identical-file"})
		}
		// the YAML value differs from the command-line value in letter case only: still another value
		for _, d := range spec.DualOptions {
			_, str, isList, set := cfg.DualValue(d.Name)
			if isList || !set || d.Name == "sort" {
				continue
			}
			other := strings.ToUpper(str)
			if other == str {
				other = strings.ToLower(str)
			}
			if other == str {
				continue
			}
			dec := cfg.Clone()
			switch d.Name {
			case "default_package_name":
				dec.DefaultPackageName = other
			case "target_package_name":
				dec.TargetPackageName = other
			case "duration_custom_type":
				dec.DurationCustomType = other
			}
			y := dec.Render(allOn(spec.ChYAML), nil)
			split := allOn(spec.ChNone)
			split[d.Name] = spec.ChCLI
			cli := cfg.Render(split, nil)
			add("cli-precedence-case-only:"+d.Name, ref, RunSpec{Config: &ConfigFile{Mode: "file", Content: y.YAML}, Params: cli.Params,
				Note: "precedence: the YAML value of " + d.Name + " is " + other + ", the command line carries " + str}, Expect{Kind: "identical-file"})
		}
		// every spelling strconv.ParseBool accepts is a value of `sort` on the command line, and it takes
		// precedence over the opposite value in the YAML file
		for _, sp := range []struct {
			s string
			v bool
		}{{"1", true}, {"t", true}, {"T", true}, {"TRUE", true}, {"True", true}, {"true", true},
			{"0", false}, {"f", false}, {"F", false}, {"FALSE", false}, {"False", false}, {"false", false}} {
			if variant >= 2 {
				break // the value spellings do not depend on the other option values
			}
			want := cfg.Clone()
			want.Sort = sp.v
			wr := runFrom(want.Render(allOn(spec.ChYAML), nil))
			wr.Note = fmt.Sprintf("reference: sort: %v in the YAML file", sp.v)
			opp := cfg.Clone()
			opp.Sort = !sp.v
			run := runFrom(opp.Render(allOn(spec.ChYAML), nil))
			if !opp.Sort {
				run.Config.Content += "sort: false\n"
			}
			run.Params = append(run.Params, "sort="+sp.s)
			run.Note = fmt.Sprintf("sort: %v in the YAML file, sort=%s on the command line", !sp.v, sp.s)
			wrc := wr
			add("cli-precedence:sort-spelling:"+sp.s, &wrc, run, Expect{Kind: "identical-file"})
		}
		// a command-line list that consists of separators only (`exclude_fields=+`) is the list of empty
		// names: it matches nothing, and it still takes precedence over the YAML list. The reference is the
		// configuration with that list left out.
		for _, d := range spec.DualOptions {
			list, _, isList, set := cfg.DualValue(d.Name)
			if !isList || !set || d.Name == "types" || len(list) == 0 {
				continue
			}
			without := cfg.Clone()
			switch d.Name {
			case "exclude_fields":
				without.ExcludeFields = nil
				if usesTemporalUnmappable(p, without) {
					continue
				}
			case "computed_fields":
				without.ComputedFields = nil
			case "required_fields":
				without.RequiredFields = nil
			case "sensitive_fields":
				without.SensitiveFields = nil
			}
			wr := runFrom(without.Render(allOn(spec.ChYAML), nil))
			wr.Note = "reference: the YAML file without " + d.YAML
			for _, seps := range []string{"+", "+++"} {
				run := refR
				run.Params = append(append([]string{}, refR.Params...), d.CLI+"="+seps)
				run.Note = "YAML as in the reference of this variant plus " + d.CLI + "=" + seps + " on the command line"
				wrc := wr
				add("cli-precedence-separators-only:"+d.Name, &wrc, run, Expect{Kind: "identical-file"})
			}
		}
	}

	// --- a readable, parsable configuration file that says nothing: every option on the CLI. The
	// reference has no config file at all; only options expressible on the CLI are kept.
	{
		only := spec.Config{Types: p.Config.Types, ExcludeFields: p.Config.ExcludeFields, ComputedFields: p.Config.ComputedFields,
			RequiredFields: p.Config.RequiredFields, SensitiveFields: p.Config.SensitiveFields, Sort: true}
		if usesTemporal(p) {
			only.ExcludeFields = append(append([]string{}, only.ExcludeFields...), temporalKeys(p)...)
		}
		cliOnly := only.Render(allOn(spec.ChCLI), nil)
		refR := RunSpec{Params: cliOnly.Params, Note: "reference: no configuration file, every option on the CLI"}
		for _, ec := range [][2]string{{"zero-length", ""}, {"comments-only", "# types:\n#   - Nothing\n"}, {"document-marker-only", "---\n"},
			{"empty-mapping", "{}\n"}, {"blank-lines", "\n\n"}} {
			add("channel-equivalence/empty-config-file:"+ec[0], &refR, RunSpec{Config: &ConfigFile{Mode: "file", Content: ec[1]}, Params: cliOnly.Params}, Expect{Kind: "identical-file"})
		}
	}

	// --- no types on either channel => failure
	cfg := c16Config(p, true)
	noTypes := cfg.Clone()
	noTypes.Types = nil
	y := noTypes.Render(allOn(spec.ChYAML), nil)
	add("no-types/key-absent", nil, runFrom(y), Expect{Kind: "fails"})
	add("no-types/empty-list", nil, RunSpec{Config: &ConfigFile{Mode: "file", Content: y.YAML + "types: []\n"}}, Expect{Kind: "fails"})
	add("no-types/empty-cli-value", nil, RunSpec{Config: &ConfigFile{Mode: "file", Content: y.YAML}, Params: []string{"types="}}, Expect{Kind: "fails"})
	add("no-types/no-config-at-all", nil, RunSpec{Params: []string{"sort=true"}}, Expect{Kind: "fails"})
	add("no-types/no-parameters", nil, RunSpec{}, Expect{Kind: "fails"})

	// --- configuration file that cannot be read: types and everything else also on the CLI, and a
	// config whose content changes the output, so "generating with defaults" would be observable.
	cli := cfg.Render(allOn(spec.ChCLI), nil)
	for _, mode := range []string{"missing", "dir", "dangling", "loop", "notdir", "toolong", "procmem"} {
		add("unreadable-config/kernel:"+mode, nil, RunSpec{Config: &ConfigFile{Mode: mode}, Params: cli.Params,
			Note: "real kernel error on the config read"}, Expect{Kind: "fails"})
	}
	full := cfg.Render(allOn(spec.ChYAML), nil).YAML
	for _, f := range []struct {
		kind  string
		after int
	}{{"EACCES", 0}, {"EIO-open", 0}, {"EIO-after", 0}, {"EIO-after", 17}, {"EIO-after", len(full) / 2}, {"EIO-after", len(full)}} {
		add(fmt.Sprintf("unreadable-config/seam:%s@%d", f.kind, f.after), nil,
			RunSpec{Config: &ConfigFile{Mode: "file", Content: full}, Params: cli.Params,
				Sim: &Schedule{MapMode: "identity", ReadFault: f.kind, ReadAfter: f.after}}, Expect{Kind: "fails"})
	}
	if tier == "thorough" {
		for i := 0; i < 40; i++ {
			n := r.Intn(len(full) + 1)
			add(fmt.Sprintf("unreadable-config/seam:EIO-after@%d", n), nil,
				RunSpec{Config: &ConfigFile{Mode: "file", Content: full}, Params: cli.Params,
					Sim: &Schedule{MapMode: "identity", ReadFault: "EIO-after", ReadAfter: n}}, Expect{Kind: "fails"})
		}
	}

	// --- configuration file that cannot be parsed
	tornAt := strings.Index(full, "name_overrides:")
	if tornAt < 0 {
		tornAt = len(full)
	}
	torn := full[:tornAt] + "name_overrides: {\"Naming.Overridden\": \"renamed\", \"Leaf.Flag\n"
	garbage := "\x00\x01\x02types:\xff\xfe[\x80"
	tabbed := "types:\n\t- Sink\n\t- Leaf\nsort:\ttrue\n"
	unterminated := full + "validators: [\"a\", \n"
	for _, sc := range [][2]string{{"binary-garbage", garbage}, {"tab-indent", tabbed}, {"torn-flow-map", torn}, {"unterminated-seq", unterminated}} {
		name, content := sc[0], sc[1]
		if yamlParses(content) {
			continue // still valid YAML: a readable, parsable configuration; nothing is asserted
		}
		add("unparsable-config/syntax:"+name, nil, RunSpec{Config: &ConfigFile{Mode: "file", Content: content}, Params: cli.Params}, Expect{Kind: "fails"})
	}
	for _, tc := range [][2]string{
		{"injected-is-scalar", "injected_fields: 5\n"},
		{"name-overrides-is-seq", "name_overrides: [\"a\", \"b\"]\n"},
		{"sort-is-list", "sort: [true]\n"},
		{"time-type-is-seq", "time_type: [\"x\"]\n"},
		{"types-is-map", "types: {\"a\": 1}\n"},
		{"types-is-scalar-map", "types:\n  Sink:\n    nested: true\n"},
		{"validators-is-scalar", "validators:\n  \"Some.Field\": {\"a\": \"b\"}\n"},
	} {
		name, line := tc[0], tc[1]
		// documented option types violated: the file is YAML but cannot be parsed as a configuration
		content := "---\n" + line
		add("unparsable-config/type:"+name, nil, RunSpec{Config: &ConfigFile{Mode: "file", Content: content}, Params: cli.Params}, Expect{Kind: "fails"})
	}
	return cases, kinds
}

// usesTemporal reports whether the program has a time or duration field (those need YAML-only options).
func usesTemporal(p *spec.Program) bool { return len(temporalKeys(p)) > 0 }

// temporalKeys lists Message.Field keys of all temporal fields (excluded when no time/duration type can be given).
func temporalKeys(p *spec.Program) []string {
	var out []string
	for _, m := range p.Messages {
		for _, f := range m.Fields {
			if f.IsTemporal() {
				out = append(out, m.Name+"."+f.Name)
			}
		}
	}
	return out
}

// QualifiedValuesProgram: the corpus with scalar option values that contain punctuation — the custom
// duration cast type is package-qualified (fields cast to it follow), package names carry dots, dashes
// and slashes. A value is a value on either channel.
func QualifiedValuesProgram(p *spec.Program) *spec.Program {
	q := cloneProgram(p)
	const qual = "example.com/lease-api/v2/durations.Duration"
	for mi := range q.Messages {
		for fi := range q.Messages[mi].Fields {
			if q.Messages[mi].Fields[fi].Cast == spec.DurationCastName {
				q.Messages[mi].Fields[fi].Cast = qual
			}
		}
	}
	q.Config.DurationCustomType = qual
	q.Config.DefaultPackageName = "example.com/api-types/v2.1/types"
	q.Config.TargetPackageName = "tf_out.v2"
	return q
}

// usesTemporalUnmappable: placeholder for configurations in which dropping the exclusions would make a
// selected type unmappable (none in the programs used here: time_type / duration_type are always set).
func usesTemporalUnmappable(p *spec.Program, c spec.Config) bool { return false }

// PartialTypesProgram: the corpus without duration_type (time_type stays): the custom duration type is
// configured although nothing maps it, so every selected type that reaches a duration is left out — on
// whichever channel the options arrive.
func PartialTypesProgram(p *spec.Program) *spec.Program {
	q := cloneProgram(p)
	q.Config.DurationType = nil
	// a selected type whose only temporal fields are cast to the custom duration type
	q.Messages = append(q.Messages, spec.Message{Name: "OnlyCast", Fields: []spec.Field{
		{Name: "OcName", Num: 1, Kind: spec.KString},
		{Name: "OcTTL", Num: 2, Kind: spec.KInt64, Cast: spec.DurationCastName, JSON: "oc_ttl"},
		{Name: "OcGraces", Num: 3, Kind: spec.KInt64, Cast: spec.DurationCastName, Card: spec.CardList},
	}})
	q.Config.Types = append(q.Config.Types, "OnlyCast")
	return q
}
