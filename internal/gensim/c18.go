package gensim

import (
	"encoding/json"
	"fmt"
	"sort"
	"strings"

	"verif/spec"
)

// c18Base is a small program whose roots reach shared messages through every kind of edge.
func c18Base() *spec.Program {
	p := &spec.Program{File: "p.proto", Package: "p"}
	p.Enums = []spec.Enum{{Name: "Mode", Values: []string{"MODE_UNKNOWN", "MODE_ON"}}}
	f := func(name string, num int32, kind string, mod ...func(*spec.Field)) spec.Field {
		x := spec.Field{Name: name, Num: num, Kind: kind}
		if kind == spec.KMessage {
			x.Nullable = true
		}
		for _, m := range mod {
			m(&x)
		}
		return x
	}
	ref := func(n string) func(*spec.Field) { return func(x *spec.Field) { x.Ref = n } }
	list := func(x *spec.Field) { x.Card = spec.CardList }
	mp := func(x *spec.Field) { x.Card = spec.CardMap }
	nn := func(x *spec.Field) { x.Nullable = false }
	emb := func(x *spec.Field) { x.Embed = true }
	oo := func(g string) func(*spec.Field) { return func(x *spec.Field) { x.Oneof = g } }
	m := func(name string, oneofs []string, fs ...spec.Field) {
		p.Messages = append(p.Messages, spec.Message{Name: name, Fields: fs, Oneofs: oneofs})
	}
	m("Inner", nil, f("IStr", 1, spec.KString), f("INum", 2, spec.KInt64))
	m("Shared", nil, f("SStr", 1, spec.KString), f("SInner", 2, spec.KMessage, ref("Inner")), f("SList", 3, spec.KString, list))
	m("MV", nil, f("MStr", 1, spec.KString), f("MFlag", 2, spec.KBool))
	m("OB", nil, f("OStr", 1, spec.KString))
	m("EmbX", nil, f("XStr", 1, spec.KString), f("XNum", 2, spec.KInt32))
	// selected types whose names extend the name of a type that will fail, declared before and after it
	m("RootAExt", nil, f("AxStr", 1, spec.KString), f("AxNum", 2, spec.KInt64))
	m("RootA", nil, f("AStr", 1, spec.KString), f("AShared", 2, spec.KMessage, ref("Shared")), f("AMode", 3, spec.KEnum, ref("Mode")))
	// reaches Shared through a field with the same name as RootA's
	m("RootF", nil, f("FStr", 1, spec.KString), f("AShared", 2, spec.KMessage, ref("Shared")))
	m("RootB", nil, f("BStr", 1, spec.KString), f("BItems", 2, spec.KMessage, ref("Shared"), list), f("BMap", 3, spec.KString, mp))
	m("RootC", nil, f("CStr", 1, spec.KString), f("CVals", 2, spec.KMessage, ref("MV"), mp, nn))
	m("RootD", []string{"Pick"}, f("DStr", 1, spec.KString), f("PickS", 2, spec.KString, oo("Pick")), f("PickO", 3, spec.KMessage, ref("OB"), oo("Pick")))
	m("RootE", nil, f("EStr", 1, spec.KString), f("EmbX", 2, spec.KMessage, ref("EmbX"), emb, nn))
	// an embedded message that is not at the root: below a list element and below a map value
	m("EmbY", nil, f("YStr", 1, spec.KString), f("YNum", 2, spec.KInt64))
	m("Holder", nil, f("HStr", 1, spec.KString), f("EmbY", 2, spec.KMessage, ref("EmbY"), emb, nn))
	m("RootG", nil, f("GStr", 1, spec.KString), f("GItems", 2, spec.KMessage, ref("Holder"), list), f("GMap", 3, spec.KMessage, ref("Holder"), mp, nn))
	// a second selected type that reaches the same embedding message (same error text for both)
	m("RootH", nil, f("HName", 1, spec.KString), f("HRef", 2, spec.KMessage, ref("Holder")))
	// message-kind fields that carry a custom type (custom_types, path form): what lies below them still
	// belongs to the selected type
	m("CTIn", nil, f("InStr", 1, spec.KString))
	m("CT", nil, f("CtStr", 1, spec.KString), f("CtIn", 2, spec.KMessage, ref("CTIn")))
	m("CTL", nil, f("ClStr", 1, spec.KString))
	m("CTM", nil, f("CmStr", 1, spec.KString))
	m("RootI", nil, f("IStr", 1, spec.KString), f("ISpec", 2, spec.KMessage, ref("CT")), f("IItems", 3, spec.KMessage, ref("CTL"), list),
		f("IByKey", 4, spec.KMessage, ref("CTM"), mp))
	// messages that have no field of their own: the unmappable field is then the only one
	m("Lone1", nil)
	m("Lone2", nil)
	m("Lone3", nil)
	m("RootJ", nil, f("JStr", 1, spec.KString), f("JOne", 2, spec.KMessage, ref("Lone1")), f("JList", 3, spec.KMessage, ref("Lone2"), list),
		f("JMap", 4, spec.KMessage, ref("Lone3"), mp))
	m("RootLone", nil)
	// messages of another proto / Go package, reached from two selected types
	p.Foreign = []spec.ForeignFile{{File: "ext/v1/ext.proto", ProtoPackage: "ext.v1", GoPackage: "example.com/ext/v1", Messages: []spec.Message{
		{Name: "FarInner", Fields: []spec.Field{f("FiStr", 1, spec.KString)}},
		{Name: "Far", Fields: []spec.Field{f("FarStr", 1, spec.KString), f("FarIn", 2, spec.KMessage, ref("FarInner"))}},
	}}}
	m("RootK", nil, f("KStr", 1, spec.KString), f("KFar", 2, spec.KMessage, ref("ext.v1.Far")))
	m("RootL", nil, f("LStr", 1, spec.KString), f("LFars", 3, spec.KMessage, ref("ext.v1.Far"), list))
	// a selected type that is also nested below another selected type
	m("SelInner", nil, f("SiStr", 1, spec.KString), f("SiNum", 2, spec.KInt64))
	m("SelOuter", nil, f("SoStr", 1, spec.KString), f("SoIn", 2, spec.KMessage, ref("SelInner")), f("SoList", 3, spec.KMessage, ref("SelInner"), list))
	m("RootBExt", nil, f("BxStr", 1, spec.KString), f("BxInner", 2, spec.KMessage, ref("Inner")))
	m("RootD2", nil, f("D2Str", 1, spec.KString))
	// a chain of twelve nested messages (singular, list and map links alternate)
	for i := 12; i >= 1; i-- {
		fs := []spec.Field{f(fmt.Sprintf("D%dStr", i), 1, spec.KString)}
		if i < 12 {
			nx := f("Next", 2, spec.KMessage, ref(fmt.Sprintf("D%d", i+1)))
			switch i % 3 {
			case 1:
				nx.Card = spec.CardList
			case 2:
				nx.Card = spec.CardMap
			}
			fs = append(fs, nx)
		}
		m(fmt.Sprintf("D%d", i), nil, fs...)
	}
	m("RootDeep", nil, f("DeepStr", 1, spec.KString), f("Chain", 2, spec.KMessage, ref("D1")))
	m("Clean", nil, f("Name", 1, spec.KString), f("Count", 2, spec.KInt64), f("Inner", 3, spec.KMessage, ref("Inner"), nn))
	m("Unselected", nil, f("UStr", 1, spec.KString))
	p.Config = spec.Config{
		Types:          []string{"RootAExt", "RootA", "RootF", "RootB", "RootC", "RootD", "RootE", "RootG", "RootH", "RootI", "RootJ", "RootLone", "RootK", "RootL", "SelOuter", "SelInner", "RootDeep", "RootBExt", "RootD2", "Clean"},
		ComputedFields: []string{"Clean.Count"},
		// configured although duration_type is not: a field cast to it has no mapping
		DurationCustomType: spec.DurationCastName,
		NameOverrides:      map[string]string{"Clean.Name": "clean_name"},
		CustomTypes:        map[string]string{"RootI.ISpec": "SpecCustom", "RootI.IItems": "ItemsCustom", "RootI.IByKey": "ByKeyCustom"},
	}
	return p
}

func cloneProgram(p *spec.Program) *spec.Program {
	b, _ := json.Marshal(p)
	q := &spec.Program{}
	_ = json.Unmarshal(b, q)
	return q
}

type badKind struct {
	name  string
	field func(name string, num int32) spec.Field
}

var badKinds = []badKind{
	{"time-without-time_type", func(n string, num int32) spec.Field {
		return spec.Field{Name: n, Num: num, Kind: spec.KTime, Nullable: false}
	}},
	{"nullable-time-without-time_type", func(n string, num int32) spec.Field {
		return spec.Field{Name: n, Num: num, Kind: spec.KTime, Nullable: true}
	}},
	{"raw-timestamp-without-time_type", func(n string, num int32) spec.Field {
		return spec.Field{Name: n, Num: num, Kind: spec.KTime, Nullable: true, Raw: true}
	}},
	{"duration-without-duration_type", func(n string, num int32) spec.Field {
		return spec.Field{Name: n, Num: num, Kind: spec.KDuration, Nullable: false}
	}},
	{"cast-duration-without-duration_type", func(n string, num int32) spec.Field {
		return spec.Field{Name: n, Num: num, Kind: spec.KInt64, Cast: "time.Duration"}
	}},
	{"custom-duration-cast-without-duration_type", func(n string, num int32) spec.Field {
		return spec.Field{Name: n, Num: num, Kind: spec.KInt64, Cast: spec.DurationCastName}
	}},
	{"custom-duration-cast-list-without-duration_type", func(n string, num int32) spec.Field {
		return spec.Field{Name: n, Num: num, Kind: spec.KInt64, Cast: spec.DurationCastName, Card: spec.CardList}
	}},
	{"duration-list-without-duration_type", func(n string, num int32) spec.Field {
		return spec.Field{Name: n, Num: num, Kind: spec.KDuration, Card: spec.CardList}
	}},
	{"time-list-without-time_type", func(n string, num int32) spec.Field {
		return spec.Field{Name: n, Num: num, Kind: spec.KTime, Card: spec.CardList}
	}},
	// field options that look like "leave this field out" but are not exclusions
	{"time-without-time_type+jsontag-dash", func(n string, num int32) spec.Field {
		return spec.Field{Name: n, Num: num, Kind: spec.KTime, Nullable: true, JSON: "-"}
	}},
	{"duration-without-duration_type+jsontag-dash-omitempty", func(n string, num int32) spec.Field {
		return spec.Field{Name: n, Num: num, Kind: spec.KDuration, Nullable: false, JSON: "-,omitempty"}
	}},
	{"map-int32-key+jsontag-dash", func(n string, num int32) spec.Field {
		return spec.Field{Name: n, Num: num, Kind: spec.KString, Card: spec.CardMap, MapKey: spec.KInt32, JSON: "-"}
	}},
	{"time-without-time_type+jsontag-hidden", func(n string, num int32) spec.Field {
		return spec.Field{Name: n, Num: num, Kind: spec.KTime, Nullable: false, JSON: "hidden,omitempty"}
	}},
	// the time / duration field is itself embedded (gogoproto.embed on a Timestamp / Duration field)
	{"embedded-raw-timestamp-without-time_type", func(n string, num int32) spec.Field {
		return spec.Field{Name: n, Num: num, Kind: spec.KTime, Nullable: true, Raw: true, Embed: true}
	}},
	{"embedded-stdtime-without-time_type", func(n string, num int32) spec.Field {
		return spec.Field{Name: n, Num: num, Kind: spec.KTime, Nullable: false, Embed: true}
	}},
	{"embedded-raw-duration-without-duration_type", func(n string, num int32) spec.Field {
		return spec.Field{Name: n, Num: num, Kind: spec.KDuration, Nullable: true, Raw: true, Embed: true}
	}},
	{"map-int32-key", func(n string, num int32) spec.Field {
		return spec.Field{Name: n, Num: num, Kind: spec.KString, Card: spec.CardMap, MapKey: spec.KInt32}
	}},
	{"map-int64-key", func(n string, num int32) spec.Field {
		return spec.Field{Name: n, Num: num, Kind: spec.KString, Card: spec.CardMap, MapKey: spec.KInt64}
	}},
	{"map-uint32-key", func(n string, num int32) spec.Field {
		return spec.Field{Name: n, Num: num, Kind: spec.KInt64, Card: spec.CardMap, MapKey: spec.KUint32}
	}},
	{"map-bool-key", func(n string, num int32) spec.Field {
		return spec.Field{Name: n, Num: num, Kind: spec.KString, Card: spec.CardMap, MapKey: spec.KBool}
	}},
	{"map-int-key-message-value", func(n string, num int32) spec.Field {
		return spec.Field{Name: n, Num: num, Kind: spec.KMessage, Ref: "Inner", Card: spec.CardMap, MapKey: spec.KInt32, Nullable: true}
	}},
}

// decoyOptions: configuration entries keyed by the unmappable field that are NOT exclusions.
var decoyOptions = []struct {
	name  string
	apply func(c *spec.Config, keys []string)
}{
	{"schema_types", func(c *spec.Config, keys []string) {
		if c.SchemaTypes == nil {
			c.SchemaTypes = map[string]spec.SchemaType{}
		}
		for _, k := range keys {
			c.SchemaTypes[k] = spec.SchemaType{Type: "SimStrType", ValueType: "SimStrValue", CastToType: "string", CastFromType: "string"}
		}
	}},
	{"flags+name+validators", func(c *spec.Config, keys []string) {
		if c.NameOverrides == nil {
			c.NameOverrides = map[string]string{}
		}
		if c.Validators == nil {
			c.Validators = map[string][]string{}
		}
		if c.PlanModifiers == nil {
			c.PlanModifiers = map[string][]string{}
		}
		for _, k := range keys {
			c.ComputedFields = append(c.ComputedFields, k)
			c.SensitiveFields = append(c.SensitiveFields, k)
			c.NameOverrides[k] = "renamed_bad"
			c.Validators[k] = []string{"UseSimValidator()"}
			c.PlanModifiers[k] = []string{"PathModifier()"}
		}
	}},
	{"injected-same-name", func(c *spec.Config, keys []string) {
		// an injected attribute called like the unmappable field, in the message that holds it
		if c.InjectedFields == nil {
			c.InjectedFields = map[string][]spec.Injected{}
		}
		for _, k := range keys {
			i := strings.LastIndex(k, ".")
			c.InjectedFields[k[:i]] = append(c.InjectedFields[k[:i]],
				spec.Injected{Name: spec.SnakeCase(k[i+1:]), Type: "github.com/hashicorp/terraform-plugin-framework/types.StringType", Optional: true})
		}
	}},
	{"suffix+injected", func(c *spec.Config, keys []string) {
		if c.Suffixes == nil {
			c.Suffixes = map[string]string{}
		}
		if c.InjectedFields == nil {
			c.InjectedFields = map[string][]spec.Injected{}
		}
		for _, k := range keys {
			c.Suffixes[k] = "Bad"
			c.RequiredFields = append(c.RequiredFields, k)
			c.InjectedFields[k[:strings.LastIndex(k, ".")]] = []spec.Injected{{Name: "injected_next_to_bad", Type: "github.com/hashicorp/terraform-plugin-framework/types.StringType", Optional: true}}
		}
	}},
}

// positions: message that receives the bad field, whether it goes first / last, oneof membership.
type badPos struct {
	name  string
	msg   string
	first bool
	oneof string
	// lone: the bad field is the only field of its message (once excluded, the message differs from the
	// field-less message of the twin)
	lone bool
	// affected: the roots that reach the message, when the spec's own reachability does not see it (a
	// message of another package)
	affected []string
	// pathAffected: roots that still reach the field after every path key was applied (a selected type
	// that is also nested: the path keys through the outer type say nothing about the inner type itself)
	pathAffected []string
	// fieldName: the name of the unmappable field (default BadField)
	fieldName string
	// one path-form exclusion key per occurrence (README: Root.Field.Sub), by root
	pathKeys func(field string) []string
}

var badPositions = []badPos{
	{name: "direct-last", msg: "RootA", pathKeys: func(f string) []string { return []string{"RootA." + f} }},
	{name: "direct-first", msg: "RootB", first: true, pathKeys: func(f string) []string { return []string{"RootB." + f} }},
	{name: "nested+list-element", msg: "Shared", pathKeys: func(f string) []string {
		return []string{"RootA.AShared." + f, "RootF.AShared." + f, "RootB.BItems." + f}
	}},
	{name: "depth-2", msg: "Inner", first: true, pathKeys: func(f string) []string {
		return []string{"RootA.AShared.SInner." + f, "RootF.AShared.SInner." + f, "RootB.BItems.SInner." + f, "Clean.Inner." + f, "RootBExt.BxInner." + f}
	}},
	{name: "map-value", msg: "MV", pathKeys: func(f string) []string { return []string{"RootC.CVals." + f} }},
	{name: "oneof-branch-message", msg: "OB", pathKeys: func(f string) []string { return []string{"RootD.PickO." + f} }},
	{name: "oneof-branch-direct", msg: "RootD", oneof: "Pick", pathKeys: func(f string) []string { return []string{"RootD." + f} }},
	{name: "depth-12", msg: "D12", pathKeys: func(f string) []string {
		return []string{"RootDeep.Chain" + strings.Repeat(".Next", 11) + "." + f}
	}},
	{name: "below-custom-typed-message", msg: "CT", pathKeys: func(f string) []string { return []string{"RootI.ISpec." + f} }},
	{name: "depth-2-below-custom-typed-message", msg: "CTIn", first: true, pathKeys: func(f string) []string { return []string{"RootI.ISpec.CtIn." + f} }},
	{name: "below-custom-typed-list", msg: "CTL", pathKeys: func(f string) []string { return []string{"RootI.IItems." + f} }},
	{name: "below-custom-typed-map", msg: "CTM", pathKeys: func(f string) []string { return []string{"RootI.IByKey." + f} }},
	{name: "only-field-of-nested-message", lone: true, msg: "Lone1", pathKeys: func(f string) []string { return []string{"RootJ.JOne." + f} }},
	{name: "only-field-of-list-element", lone: true, msg: "Lone2", pathKeys: func(f string) []string { return []string{"RootJ.JList." + f} }},
	{name: "only-field-of-map-value", lone: true, msg: "Lone3", pathKeys: func(f string) []string { return []string{"RootJ.JMap." + f} }},
	{name: "only-field-of-selected-type", lone: true, msg: "RootLone", pathKeys: func(f string) []string { return []string{"RootLone." + f} }},
	{name: "message-of-another-package", msg: "ext.v1.Far", affected: []string{"RootK", "RootL"}, pathKeys: func(f string) []string {
		return []string{"RootK.KFar." + f, "RootL.LFars." + f}
	}},
	{name: "nested-in-message-of-another-package", msg: "ext.v1.FarInner", first: true, affected: []string{"RootK", "RootL"}, pathKeys: func(f string) []string {
		return []string{"RootK.KFar.FarIn." + f, "RootL.LFars.FarIn." + f}
	}},
	{name: "selected-type-nested-in-selected-type", msg: "SelInner", pathAffected: []string{"SelInner"}, pathKeys: func(f string) []string {
		return []string{"SelOuter.SoIn." + f, "SelOuter.SoList." + f}
	}},
	// the unmappable field is called like the synthetic fields of a map entry, next to a string-keyed map
	{name: "named-value-next-to-map", msg: "RootB", fieldName: "value", pathKeys: func(f string) []string { return []string{"RootB." + f} }},
	{name: "named-key-next-to-map", msg: "RootC", fieldName: "key", first: true, pathKeys: func(f string) []string { return []string{"RootC." + f} }},
	{name: "named-value-in-map-value", msg: "MV", fieldName: "value", pathKeys: func(f string) []string { return []string{"RootC.CVals." + f} }},
	{name: "embedded", msg: "EmbX", pathKeys: nil},
	// README: options below an embedded field are keyed by the name of the embedding message
	{name: "embedded-in-element", msg: "EmbY", pathKeys: func(f string) []string { return []string{"Holder." + f} }},
}

func withBad(base *spec.Program, pos badPos, k badKind) (*spec.Program, string) {
	p := cloneProgram(base)
	m := p.Msg(pos.msg)
	if spec.IsForeignRef(pos.msg) {
		for fi := range p.Foreign {
			for mi := range p.Foreign[fi].Messages {
				if p.Foreign[fi].ProtoPackage+"."+p.Foreign[fi].Messages[mi].Name == pos.msg {
					m = &p.Foreign[fi].Messages[mi]
				}
			}
		}
	}
	var maxNum int32
	for _, f := range m.Fields {
		if f.Num > maxNum {
			maxNum = f.Num
		}
	}
	fname := "BadField"
	if pos.fieldName != "" {
		fname = pos.fieldName
	}
	bf := k.field(fname, maxNum+1)
	bf.Oneof = pos.oneof
	if pos.first {
		m.Fields = append([]spec.Field{bf}, m.Fields...)
	} else {
		m.Fields = append(m.Fields, bf)
	}
	return p, bf.Name
}

// affectedRoots computes, from the spec alone, the selected roots from which msg is reachable.
func affectedRoots(p *spec.Program, msg string) []string {
	var r []string
	for _, root := range p.Config.Types {
		for _, m := range p.Reachable(root) {
			if m == msg {
				r = append(r, root)
			}
		}
	}
	sort.Strings(r)
	return r
}

// C18RealCases: every unmappable kind at every position, without and with exclusion (both key forms).
func C18RealCases(seed uint64, tier string) ([]*Case, map[string]int) {
	base := c18Base()
	kinds := map[string]int{}
	var cases []*Case
	refRun := func(p *spec.Program) *RunSpec {
		r := runFrom(p.Config.Render(nil, nil))
		r.Program = p
		r.Note = "fault-free twin: same program without the unmappable field"
		return &r
	}
	for _, sortOn := range []bool{false, true} {
		for _, pos := range badPositions {
			for ki, k := range badKinds {
				// quick tier: with sort on, every third kind (rotating with the position) — the thorough tier
				// runs the full product
				if tier != "thorough" && sortOn && (ki+len(pos.name))%3 != 0 {
					continue
				}
				if pos.oneof != "" && (k.field("x", 1).Card != "") {
					continue // repeated/map fields cannot be oneof members
				}
				if spec.IsForeignRef(pos.msg) && k.field("x", 1).Ref != "" {
					continue // the bad field's own message reference lives in the program's package
				}
				b := cloneProgram(base)
				b.Config.Sort = sortOn
				p, fname := withBad(b, pos, k)
				aff := affectedRoots(p, pos.msg)
				if pos.affected != nil {
					aff = pos.affected
				}
				run := runFrom(p.Config.Render(nil, nil))
				clause := fmt.Sprintf("unmappable/%s@%s", k.name, pos.name)
				kinds["unmappable"]++
				cases = append(cases, &Case{Property: "C18", Clause: clause, Seed: seed, Tier: tier, Program: p,
					Ref: refRun(b), Run: run, Expect: Expect{Kind: "atomic", Roots: p.Config.Types, Affected: aff}})

				// options aimed at the unmappable field itself (other than exclusion) do not make it mappable
				if pos.oneof == "" && (pos.name == "direct-last" || pos.name == "nested+list-element" || pos.name == "map-value" || pos.name == "depth-2" || tier == "thorough") {
					typeKey := pos.msg[strings.LastIndex(pos.msg, ".")+1:] + "." + fname
					keys := []string{typeKey}
					if pos.pathKeys != nil && !k.field("x", 1).Embed {
						keys = append(keys, pos.pathKeys(fname)...)
					}
					for _, dk := range decoyOptions {
						pd := cloneProgram(p)
						dk.apply(&pd.Config, keys)
						kinds["unmappable+option"]++
						cases = append(cases, &Case{Property: "C18", Clause: fmt.Sprintf("unmappable+%s/%s@%s", dk.name, k.name, pos.name), Seed: seed, Tier: tier, Program: pd,
							Ref: refRun(b), Run: runFrom(pd.Config.Render(nil, nil)), Expect: Expect{Kind: "atomic", Roots: p.Config.Types, Affected: aff}})
					}
				}

				// exclusion by Message.Field restores everything
				var restoredRoots []string
				if pos.lone {
					restoredRoots = aff
				}
				pe := cloneProgram(p)
				pe.Config.ExcludeFields = append(pe.Config.ExcludeFields, pos.msg[strings.LastIndex(pos.msg, ".")+1:]+"."+fname)
				// the excluded field may carry any other option as well (in either key form): exclusion wins. One
				// of the options injects a field next to it, so the text of the affected types is not compared.
				if pos.oneof == "" {
					px := cloneProgram(pe)
					tk := pos.msg[strings.LastIndex(pos.msg, ".")+1:] + "." + fname
					allKeys := []string{tk}
					if pos.pathKeys != nil && !k.field("x", 1).Embed {
						allKeys = append(allKeys, pos.pathKeys(fname)...)
					}
					for _, dk := range decoyOptions {
						dk.apply(&px.Config, allKeys)
					}
					kinds["excluded+options"]++
					cases = append(cases, &Case{Property: "C18", Clause: "excluded+options/" + k.name + "@" + pos.name, Seed: seed, Tier: tier, Program: px,
						Ref: refRun(b), Run: runFrom(px.Config.Render(nil, nil)), Expect: Expect{Kind: "atomic", Roots: p.Config.Types, Restored: aff}})
				}
				kinds["excluded/type-key"]++
				cases = append(cases, &Case{Property: "C18", Clause: "excluded/type-key/" + k.name + "@" + pos.name, Seed: seed, Tier: tier, Program: pe,
					Ref: refRun(b), Run: runFrom(pe.Config.Render(nil, nil)), Expect: Expect{Kind: "atomic", Roots: p.Config.Types, Restored: restoredRoots}})

				// exclusion by full path restores exactly the occurrences named (an embedded field is keyed by
				// the name of the embedding message only — README — so it has no path form)
				if pos.pathKeys != nil && !k.field("x", 1).Embed {
					keys := pos.pathKeys(fname)
					pa := cloneProgram(p)
					pa.Config.ExcludeFields = append(pa.Config.ExcludeFields, keys...)
					kinds["excluded/path-key"]++
					cases = append(cases, &Case{Property: "C18", Clause: "excluded/path-key/" + k.name + "@" + pos.name, Seed: seed, Tier: tier, Program: pa,
						Ref: refRun(b), Run: runFrom(pa.Config.Render(nil, nil)), Expect: Expect{Kind: "atomic", Roots: p.Config.Types, Restored: restoredRoots, Affected: pos.pathAffected}})
					// a path key restores only the occurrence it names: every other occurrence still drops its root
					partial := tier == "thorough" || strings.HasPrefix(k.name, "time-without") || strings.HasPrefix(k.name, "map-int32") || strings.HasPrefix(k.name, "custom-duration-cast-without")
					if len(keys) > 1 && partial {
						for ki, key := range keys {
							pp := cloneProgram(p)
							pp.Config.ExcludeFields = append(pp.Config.ExcludeFields, key)
							restored := key[:strings.Index(key, ".")]
							nKeysOfRoot := 0
							for _, k2 := range keys {
								if strings.HasPrefix(k2, restored+".") {
									nKeysOfRoot++
								}
							}
							var still []string
							for _, a := range aff {
								// a root is restored once every occurrence below it is excluded
								if a != restored || nKeysOfRoot > 1 {
									still = append(still, a)
								}
							}
							kinds["excluded/partial-path-key"]++
							cases = append(cases, &Case{Property: "C18", Clause: fmt.Sprintf("excluded/partial-path-key#%d/%s@%s", ki, k.name, pos.name), Seed: seed, Tier: tier, Program: pp,
								Ref: refRun(b), Run: runFrom(pp.Config.Render(nil, nil)), Expect: Expect{Kind: "atomic", Roots: p.Config.Types, Affected: still, Restored: restoredRoots}})
						}
					}
				}
			}
		}
	}
	return cases, kinds
}

// C18InjectCases: for k = 1..n, the k-th error-originating call inside the build extent fails.
func C18InjectCases(p *spec.Program, seed uint64, tier string, n int, stride int) []*Case {
	var cases []*Case
	ref := runFrom(p.Config.Render(nil, nil))
	ref.Sim = &Schedule{MapMode: "identity"}
	ref.Note = "fault-free run under the identity schedule"
	if stride < 1 {
		stride = 1
	}
	for k := 1; k <= n; k += stride {
		run := runFrom(p.Config.Render(nil, nil))
		run.Sim = &Schedule{MapMode: "identity", FailAt: k}
		r := ref
		cases = append(cases, &Case{Property: "C18", Clause: fmt.Sprintf("injected-failure/k=%d", k), Seed: seed, Tier: tier, Program: p,
			Ref: &r, Run: run, Expect: Expect{Kind: "atomic-one", Roots: p.Config.Types}})
	}
	return cases
}

// C18RandomRealCases places one unmappable field of every kind into a seeded message of a random
// program (time_type / duration_type removed from its configuration).
func C18RandomRealCases(base *spec.Program, seed uint64, tier string) []*Case {
	r := NewRand(seed)
	var cases []*Case
	b := cloneProgram(base)
	// without the temporal types every existing temporal field would be unmappable: strip them
	for mi := range b.Messages {
		var keep []spec.Field
		for _, f := range b.Messages[mi].Fields {
			if !f.IsTemporal() {
				keep = append(keep, f)
			}
		}
		if len(keep) == 0 {
			keep = append(keep, spec.Field{Name: "KeptAlive", Num: 1, Kind: spec.KString})
		}
		// oneof groups must keep >= 1 member; drop declarations that lost all members
		b.Messages[mi].Fields = keep
		var oneofs []string
		for _, o := range b.Messages[mi].Oneofs {
			for _, f := range keep {
				if f.Oneof == o {
					oneofs = append(oneofs, o)
					break
				}
			}
		}
		b.Messages[mi].Oneofs = oneofs
	}
	b.Config.TimeType, b.Config.DurationType = nil, nil
	// exclusions / flags naming removed fields are harmless (unknown keys are ignored)
	refRun := func() *RunSpec {
		rs := runFrom(b.Config.Render(nil, nil))
		rs.Program = b
		rs.Note = "fault-free twin: same program without the unmappable field"
		return &rs
	}
	var reachable []string
	seen := map[string]bool{}
	for _, root := range b.Config.Types {
		for _, m := range b.Reachable(root) {
			if !seen[m] && len(b.Msg(m).Fields) > 0 {
				seen[m] = true
				reachable = append(reachable, m)
			}
		}
	}
	sort.Strings(reachable)
	for _, k := range badKinds {
		if k.name == "map-int-key-message-value" {
			continue // refers to a message of the hand-made base program
		}
		msg := reachable[r.Intn(len(reachable))]
		pos := badPos{name: "random:" + msg, msg: msg, first: r.Bool()}
		p, fname := withBad(b, pos, k)
		aff := affectedRootsExcl(p, msg)
		cases = append(cases, &Case{Property: "C18", Clause: "unmappable/" + k.name + "@" + pos.name, Seed: seed, Tier: tier, Program: p,
			Ref: refRun(), Run: runFrom(p.Config.Render(nil, nil)), Expect: Expect{Kind: "atomic", Roots: p.Config.Types, Affected: aff}})
		var restored []string
		if len(b.Msg(msg).Fields) == 0 {
			restored = aff // the bad field is the only field of its message
		}
		pe := cloneProgram(p)
		pe.Config.ExcludeFields = append(pe.Config.ExcludeFields, msg+"."+fname)
		cases = append(cases, &Case{Property: "C18", Clause: "excluded/type-key/" + k.name + "@" + pos.name, Seed: seed, Tier: tier, Program: pe,
			Ref: refRun(), Run: runFrom(pe.Config.Render(nil, nil)), Expect: Expect{Kind: "atomic", Roots: p.Config.Types, Restored: restored}})
	}
	return cases
}

// affectedRootsExcl: roots from which msg is reachable through non-excluded fields.
func affectedRootsExcl(p *spec.Program, msg string) []string {
	excl := map[string]bool{}
	for _, e := range p.Config.ExcludeFields {
		excl[e] = true
	}
	var out []string
	for _, root := range p.Config.Types {
		seen := map[string]bool{}
		var walk func(m, path string) bool
		walk = func(m, path string) bool {
			if m == msg {
				return true
			}
			if seen[m+"@"+path] {
				return false
			}
			seen[m+"@"+path] = true
			for _, f := range p.Msg(m).Fields {
				if f.Kind != spec.KMessage {
					continue
				}
				fp := path + "." + f.Name
				if f.Embed {
					fp = m
				}
				if excl[m+"."+f.Name] || excl[fp] {
					continue
				}
				if walk(f.Ref, fp) {
					return true
				}
			}
			return false
		}
		if walk(root, root) {
			out = append(out, root)
		}
	}
	sort.Strings(out)
	return out
}
