package gensim

import (
	"encoding/json"
	"fmt"
	"os"
	"path/filepath"
	"runtime"
	"sort"
	"strings"
	"sync"
	"time"

	"verif/internal/pipeline"
	"verif/internal/simbuild"
	"verif/spec"
)

// Evidence mirrors EVIDENCE.schema.json.
type Evidence struct {
	PropertyID  string                 `json:"property_id"`
	Tier        string                 `json:"tier"`
	Seed        int64                  `json:"seed"`
	Level       string                 `json:"level"`
	Coverage    map[string]interface{} `json:"coverage"`
	Assumptions []string               `json:"assumptions"`
	WallS       float64                `json:"wall_s"`
	Violations  int                    `json:"violations"`
}

// WriteEvidence writes evidence/<id>.json under root.
func WriteEvidence(root string, ev *Evidence) error {
	dir := filepath.Join(root, "evidence")
	if err := os.MkdirAll(dir, 0o755); err != nil {
		return err
	}
	b, err := json.MarshalIndent(ev, "", " ")
	if err != nil {
		return err
	}
	return os.WriteFile(filepath.Join(dir, ev.PropertyID+".json"), b, 0o644)
}

// Setup builds the plain and the instrumented plugin into a fresh scratch directory and checks
// that the rewrite preserves behaviour under the identity schedule.
func Setup(needSim bool, deps bool) (*Engine, *simbuild.Instrumented, func(), error) {
	work, err := os.MkdirTemp("", "verif-gensim-")
	if err != nil {
		return nil, nil, nil, err
	}
	cleanup := func() { os.RemoveAll(work) }
	e := NewEngine(work)
	e.PlainBin = filepath.Join(work, "plugin.plain")
	if err := pipeline.BuildPlugin(e.PlainBin, ""); err != nil {
		cleanup()
		return nil, nil, nil, err
	}
	var ins *simbuild.Instrumented
	if needSim {
		ins, err = simbuild.Build(work, deps)
		if err != nil {
			cleanup()
			return nil, nil, nil, err
		}
		e.SimBin = ins.Bin
		// semantic preservation: corpus through both binaries, identity schedule
		p := spec.Corpus()
		rs := runFrom(p.Config.Render(nil, nil))
		plain := e.Exec(p, &rs)
		rs2 := rs
		rs2.Sim = &Schedule{MapMode: "identity"}
		sim := e.Exec(p, &rs2)
		if plain.Err != nil || sim.Err != nil {
			cleanup()
			return nil, nil, nil, &HarnessError{fmt.Sprintf("cannot run the plugin: %v %v", plain.Err, sim.Err)}
		}
		if plain.Exit != sim.Exit || string(plain.Stdout) != string(sim.Stdout) {
			// Either the rewrite changed behaviour, or the tree itself is order-dependent (then the
			// plain binary, which iterates maps in native random order, disagrees with itself).
			selfDiffers := false
			for i := 0; i < 8 && !selfDiffers; i++ {
				again := e.Exec(p, &rs)
				selfDiffers = again.Exit != plain.Exit || string(again.Stdout) != string(plain.Stdout)
			}
			if !selfDiffers {
				cleanup()
				return nil, nil, nil, &HarnessError{fmt.Sprintf("instrumented binary under the identity schedule differs from the plain binary (exit %d vs %d): %s",
					plain.Exit, sim.Exit, firstDiff(plain.Stdout, sim.Stdout))}
			}
			e.PreservationNote = "the uninstrumented binary is not repeatable on the corpus (native map order shows in its output); the semantic-preservation comparison is inconclusive on this tree"
		}
	}
	return e, ins, cleanup, nil
}

func caseKey(c *Case) string {
	r := c.Run
	r.Note = ""
	b, _ := json.Marshal(struct {
		C string
		R RunSpec
	}{c.Clause, r})
	return sha(b)
}

func sampleOf(c *Case) map[string]interface{} {
	m := map[string]interface{}{"clause": c.Clause, "params": c.Run.Params, "expect": c.Expect.Kind}
	if c.Run.Config != nil {
		m["config_mode"] = c.Run.Config.Mode
		s := c.Run.Config.Content
		if len(s) > 400 {
			s = s[:400] + "…"
		}
		m["config_head"] = s
	}
	if c.Run.Sim != nil {
		m["sim"] = c.Run.Sim
	}
	if len(c.Run.Env) > 0 {
		m["env"] = c.Run.Env
	}
	if len(c.Run.Chunks) > 0 {
		m["stdin_chunks"] = c.Run.Chunks
	}
	if c.Run.Note != "" {
		m["note"] = c.Run.Note
	}
	return m
}

// Result of a gensim check.
type Result struct {
	Violations []*Case
	Replays    []string
	Evidence   *Evidence
}

var components = map[string]interface{}{
	"real": []string{"package main of /repo (current working tree)", "gogo protobuf generator", "dave/jennifer", "x/tools/imports (goimports)",
		"gopkg.in/yaml.v3", "go/format", "kernel file and pipe semantics"},
	"stub": []string{"protoc (request built from a shape spec)", "working directory and environment of the user"},
}

// Check runs property id at the given tier.
func Check(root, id, tier string, seed uint64) (*Result, error) {
	start := time.Now()
	e, ins, cleanup, err := Setup(true, id == "C14")
	if err != nil {
		return nil, err
	}
	defer cleanup()
	corpus := spec.Corpus()
	nRandom := 1
	if tier == "thorough" {
		nRandom = 12
	}
	if v := os.Getenv("VERIF_RANDOM_PROGRAMS"); v != "" {
		fmt.Sscanf(v, "%d", &nRandom)
	}
	var randoms []*spec.Program
	for i := 0; i < nRandom; i++ {
		randoms = append(randoms, spec.RandomProgram(seed*1000003+uint64(i)*7919+17, spec.RandomOpts{}))
	}
	// harness invariant for random programs: the fault-free run must produce one file; a random
	// program the plugin cannot generate at all is dropped and counted (C01's business).
	var usable []*spec.Program
	droppedPrograms := 0
	for _, rp := range randoms {
		rs := runFrom(rp.Config.Render(nil, nil))
		o := e.Exec(rp, &rs)
		if _, _, rerr, nf, err := responseFile(o.Stdout); o.Err == nil && o.Exit == 0 && err == nil && rerr == "" && nf == 1 {
			usable = append(usable, rp)
		} else {
			droppedPrograms++
		}
	}
	randoms = usable
	var cases []*Case
	cov := map[string]interface{}{"programs": 1 + len(randoms), "random_programs_dropped": droppedPrograms}
	level := "exploration"
	var assumptions []string
	probeFails := func(p *spec.Program) int {
		rs := runFrom(p.Config.Render(nil, nil))
		rs.Sim = &Schedule{MapMode: "identity"}
		o := e.Exec(p, &rs)
		n := 0
		for _, l := range o.Events {
			if strings.HasPrefix(l, "fail k=") {
				n++
			}
		}
		return n
	}
	switch id {
	case "C14":
		n, nr := 40, 12
		if tier == "thorough" {
			n, nr = 400, 60
		}
		ccfgs := C14Configs(corpus)
		nrc := 2
		if tier == "thorough" {
			nrc = 10
		}
		for i := 0; i < nrc; i++ {
			ccfgs = append(ccfgs, spec.RandomConfig(corpus, seed*977+uint64(i)*31+5))
		}
		cases = C14Cases(corpus, ccfgs, seed, tier, n)
		// one invocation that generates several files (a small program keeps the runs short)
		for _, k := range []int{2, 6} {
			mf := MultiFile(c18Base(), k)
			cases = append(cases, C14Cases(mf, []spec.Config{mf.Config}, seed+uint64(k), tier, nr)...)
		}
		// message types taken from other Go packages whose import paths share their last element
		fp := ForeignProgram()
		cases = append(cases, C14Cases(fp, ForeignConfigs(fp), seed+77, tier, nr)...)
		fm := MultiFile(fp, 2)
		cases = append(cases, C14Cases(fm, []spec.Config{fm.Config}, seed+78, tier, nr)...)
		// a request in which several selected types fail to build
		bp := FailingProgram()
		cases = append(cases, C14Cases(bp, []spec.Config{bp.Config}, seed+79, tier, nr)...)
		for i, rp := range randoms {
			cases = append(cases, C14Cases(rp, C14ConfigsFor(rp), seed+uint64(i)+1, tier, nr)...)
		}
		cov["rule"] = "case = (program, logical configuration, channel assignment); programs = corpus + seeded random programs; per case one identity reference and N perturbed runs (schedule 0: reverse at every seam site and every config list; 1: rotate; others seeded random map order, config entry order, GOMAXPROCS, GOGC, stdin chunking, clock). A run is non-trivial when its explicit RunSpec differs from the reference; distinct = distinct RunSpec hashes"
		assumptions = []string{"map iteration inside the Go runtime / standard library and goroutine scheduling are not owned (observed only)",
			"cwd and environment are held fixed per case (not part of C14's quantifier)",
			"the overlay rewrite preserves semantics (checked: corpus output identical to the plain binary under the identity schedule)"}
	case "C16":
		level = "fault_enumeration"
		ns, nsr := 30, 6
		if tier == "thorough" {
			ns, nsr = 400, 40
		}
		var kinds map[string]int
		cases, kinds = C16Cases(corpus, seed, tier, ns)
		// the same clauses over seeded random configurations of the corpus program
		nrc := 1
		if tier == "thorough" {
			nrc = 8
		}
		for i := 0; i < nrc; i++ {
			cp := *corpus
			cp.Config = spec.RandomConfig(corpus, seed*977+uint64(i)*31+5)
			cs, ks := C16Cases(&cp, seed+uint64(100+i), tier, nsr)
			cases = append(cases, cs...)
			for k, v := range ks {
				kinds[k] += v
			}
		}
		for i, rp := range randoms {
			cs, ks := C16Cases(rp, seed+uint64(i)+1, tier, nsr)
			cases = append(cases, cs...)
			for k, v := range ks {
				kinds[k] += v
			}
		}
		// option values with punctuation: a package-qualified custom duration type, a target package with a dash
		{
			for qi, qp := range []*spec.Program{QualifiedValuesProgram(corpus), PartialTypesProgram(corpus)} {
				cs, ks := C16Cases(qp, seed+55+uint64(qi), tier, 2)
				cases = append(cases, cs...)
				for k, v := range ks {
					kinds[k] += v
				}
			}
		}
		cov["clauses"] = kinds
		cov["rule"] = "programs = corpus + seeded random programs; fault-free: all-YAML reference vs all-CLI, both, each option alone on the CLI, seeded three-way splits with seeded entry order, per-option precedence (decoy in YAML, truth on CLI), for sort on and off; no-types variants; fault runs: every kernel error kind on the uninstrumented read, seam-injected EACCES/EIO at open/EIO after n bytes, unparsable content (syntax, verified by a schema-free YAML decode) and option-type mismatches. Non-trivial = every case (each differs from its reference in channel, order, or fault); distinct = distinct (clause, RunSpec, program) hashes"
		assumptions = []string{"option names on each channel are the public interface at the pinned commit (README)",
			"a torn file that is still valid YAML is a readable configuration and is not asserted on"}
	case "C18":
		level = "fault_enumeration"
		real, kinds := C18RealCases(seed, tier)
		cases = real
		for i, rp := range randoms {
			rc := C18RandomRealCases(rp, seed+uint64(i)+1, tier)
			kinds["unmappable-random-program"] += len(rc)
			cases = append(cases, rc...)
		}
		nFail := probeFails(corpus)
		stride := 1
		if tier == "quick" && nFail > 240 {
			stride = (nFail + 239) / 240
		}
		extentOK := len(ins.Reports) > 0 && ins.Reports[0].BuildExtent && nFail > 0
		if extentOK {
			inj := C18InjectCases(corpus, seed, tier, nFail, stride)
			small := c18Base()
			n2 := probeFails(small)
			inj = append(inj, C18InjectCases(small, seed, tier, n2, 1)...)
			nr := 0
			for _, rp := range randoms {
				k := probeFails(rp)
				nr += k
				inj = append(inj, C18InjectCases(rp, seed, tier, k, 1)...)
			}
			kinds["injected-failure"] = len(inj)
			cases = append(cases, inj...)
			cov["injection_points_corpus"] = nFail
			cov["injection_points_small"] = n2
			cov["injection_points_random_programs"] = nr
			cov["injection_stride_corpus"] = stride
		} else {
			cov["injection_skipped"] = "build extent or fallible functions not found in the current tree; only real unmappable inputs were decided"
		}
		cov["clauses"] = kinds
		cov["exhaustive_over_k"] = extentOK && stride == 1
		cov["rule"] = "real faults: every unmappable kind x every position (direct, nested, list element, depth 2, map value, oneof branch, embedded) x sort on/off on a hand-made program, and every kind at a seeded message of each random program, without exclusion, with Message.Field exclusion, with full-path exclusion; injected: the k-th error-originating call inside the build extent fails, k enumerated from a fault-free run's event log (corpus, hand-made program, random programs). Non-trivial = every case; distinct = distinct (clause, RunSpec, program) hashes"
		assumptions = []string{"injection is limited to functions of package main that construct an error themselves, so an injected failure always means 'this field cannot be mapped'",
			"affected roots are computed from the shape spec's reachability, not from the plugin"}
	default:
		return nil, fmt.Errorf("gensim does not serve %s", id)
	}

	bad, err := e.RunCases(cases, runtime.NumCPU())
	if err != nil {
		return nil, err
	}
	res := &Result{}
	// minimise and write replays (at most 5 to keep output bounded)
	for i, c := range bad {
		if i >= 5 {
			break
		}
		m := e.Minimise(c)
		path, err := WriteReplay(filepath.Join(root, "evidence", "replay"), m, i)
		if err != nil {
			return nil, err
		}
		res.Violations = append(res.Violations, m)
		res.Replays = append(res.Replays, path)
	}

	distinct := map[string]bool{}
	for _, c := range cases {
		k := caseKey(c)
		if true {
			pb, _ := json.Marshal(c.Program)
			k = sha([]byte(k + string(pb)))
		}
		distinct[k] = true
	}
	var samples []interface{}
	step := len(cases)/6 + 1
	for i := 0; i < len(cases); i += step {
		samples = append(samples, sampleOf(cases[i]))
	}
	wall := time.Since(start).Seconds()
	cov["evaluations"] = len(cases)
	cov["distinct_nontrivial"] = len(distinct)
	cov["samples"] = samples
	cov["child_process_runs"] = e.Runs
	cov["runs_per_hour"] = int(float64(e.Runs) / wall * 3600)
	cov["simulated_time"] = "none: the generator has no timers; progress is counted in child-process runs"
	cov["faults_fired"] = e.FaultHits
	sites := make([]string, 0, len(e.MapSites))
	for s := range e.MapSites {
		sites = append(sites, s)
	}
	sort.Strings(sites)
	cov["map_order_effective_sites"] = sites
	cov["map_order_distinct_decision_vectors"] = len(e.OrderVecs)
	cov["seam_report"] = ins.Reports
	if e.PreservationNote != "" {
		cov["preservation_note"] = e.PreservationNote
	}
	cov["components"] = components
	cov["exhaustive"] = false
	res.Evidence = &Evidence{PropertyID: id, Tier: tier, Seed: int64(seed), Level: level, Coverage: cov,
		Assumptions: assumptions, WallS: wall, Violations: len(bad)}
	return res, nil
}

// Replay re-executes a replay file against the current tree.
func Replay(path string) (*Case, []string, error) {
	b, err := os.ReadFile(path)
	if err != nil {
		return nil, nil, err
	}
	c := &Case{}
	if err := json.Unmarshal(b, c); err != nil {
		return nil, nil, err
	}
	c.Failures, c.Observed = nil, nil
	needSim := c.Run.Sim != nil || (c.Ref != nil && c.Ref.Sim != nil)
	e, _, cleanup, err := Setup(needSim, c.Property == "C14")
	if err != nil {
		return nil, nil, err
	}
	defer cleanup()
	fails, err := e.Evaluate(c)
	return c, fails, err
}

// Determinism executes the same explicit RunSpec n times (GOMAXPROCS 1/4/16) and compares stdout and
// the event log; it also checks that the case list is a pure function of the seed.
func Determinism(n int) (map[string]interface{}, bool, error) {
	e, _, cleanup, err := Setup(true, true) // with the dependency seams, as C14 runs
	if err != nil {
		return nil, false, err
	}
	defer cleanup()
	corpus := spec.Corpus()
	ok := true
	report := map[string]interface{}{}
	// 1. case generation is a function of the seed
	for _, seed := range []uint64{1, 99} {
		h := func() string {
			var parts []string
			for _, c := range C14Cases(corpus, C14Configs(corpus), seed, "quick", 12) {
				parts = append(parts, caseKey(c))
			}
			cs, _ := C16Cases(corpus, seed, "quick", 10)
			for _, c := range cs {
				parts = append(parts, caseKey(c))
			}
			rp := spec.RandomProgram(seed*31+5, spec.RandomOpts{})
			pb, _ := json.Marshal(rp)
			parts = append(parts, sha(pb))
			return sha([]byte(strings.Join(parts, "")))
		}
		a, b := h(), h()
		report[fmt.Sprintf("case-generation/seed=%d", seed)] = map[string]interface{}{"identical": a == b, "digest": a[:16]}
		ok = ok && a == b
	}
	// 2. one explicit schedule, many processes
	cases := C14Cases(corpus, C14Configs(corpus), 5, "quick", 6)
	for _, ci := range []int{2, 5, 9} {
		c := cases[ci]
		outs := make([]string, n)
		var wg sync.WaitGroup
		sem := make(chan struct{}, runtime.NumCPU())
		for i := 0; i < n; i++ {
			wg.Add(1)
			go func(i int) {
				defer wg.Done()
				sem <- struct{}{}
				defer func() { <-sem }()
				rs := c.Run
				rs.Env = []string{fmt.Sprintf("GOMAXPROCS=%d", []int{1, 4, 16}[i%3])}
				o := e.Exec(c.Program, &rs)
				outs[i] = sha(o.Stdout) + "/" + sha([]byte(strings.Join(o.Events, "\n"))) + fmt.Sprintf("/%d", o.Exit)
			}(i)
		}
		wg.Wait()
		same := true
		for i := 1; i < n; i++ {
			if outs[i] != outs[0] {
				same = false
			}
		}
		report["schedule-replay/"+c.Clause] = map[string]interface{}{"runs": n, "identical": same, "digest": outs[0][:16]}
		ok = ok && same
	}
	return report, ok, nil
}
