// Package gensim runs the generator process under simulation (DESIGN.md §4.3): one child process
// per run, every per-run choice explicit in a RunSpec, oracles as Expectations over the observed
// exit status / stdout / stderr / event log. A Case (reference run + run + expectation) is also the
// replay file format.
package gensim

import (
	"bytes"
	"crypto/sha256"
	"encoding/hex"
	"encoding/json"
	"fmt"
	"go/ast"
	"go/parser"
	"go/token"
	"os"
	"path/filepath"
	"regexp"
	"sort"
	"strings"
	"sync"
	"sync/atomic"
	"time"

	"verif/internal/pipeline"
	"verif/spec"
)

// Rand is the single PRNG (splitmix64).
type Rand struct{ s uint64 }

func NewRand(seed uint64) *Rand { return &Rand{s: seed} }
func (r *Rand) Uint64() uint64 {
	r.s += 0x9e3779b97f4a7c15
	x := r.s
	x = (x ^ (x >> 30)) * 0xbf58476d1ce4e5b9
	x = (x ^ (x >> 27)) * 0x94d049bb133111eb
	return x ^ (x >> 31)
}
func (r *Rand) Intn(n int) int {
	if n <= 0 {
		return 0
	}
	return int(r.Uint64() % uint64(n))
}
func (r *Rand) Bool() bool { return r.Uint64()&1 == 1 }
func (r *Rand) Perm(n int) []int {
	p := make([]int, n)
	for i := range p {
		p[i] = i
	}
	for i := n - 1; i > 0; i-- {
		j := r.Intn(i + 1)
		p[i], p[j] = p[j], p[i]
	}
	return p
}
func (r *Rand) Fork() *Rand { return NewRand(r.Uint64()) }

// Schedule is the seam schedule handed to the instrumented child (mirrors simrt's struct).
type Schedule struct {
	Seed         uint64            `json:"seed"`
	MapMode      string            `json:"map_mode"`
	MapOverrides map[string]string `json:"map_overrides,omitempty"`
	ClockEpoch   int64             `json:"clock_epoch"`
	ClockStepNs  int64             `json:"clock_step_ns"`
	ReadFault    string            `json:"read_fault,omitempty"`
	ReadAfter    int               `json:"read_after,omitempty"`
	FailAt       int               `json:"fail_at,omitempty"`
	Log          string            `json:"log,omitempty"`
}

// ConfigFile says what the `config=` parameter points at.
type ConfigFile struct {
	Mode    string `json:"mode"` // file | missing | dir | dangling | loop | notdir | toolong | procmem
	Content string `json:"content,omitempty"`
	// Via: how a readable file is named (mode "file"): "" plain relative name, absolute, subdir, dotdot,
	// symlink, symlink-chain, symlink-dir, hardlink, spaces, noext, hidden, readonly
	Via string `json:"via,omitempty"`
}

// RunSpec is one fully explicit child-process run.
type RunSpec struct {
	// Before: runs executed first in the SAME scratch world (working directory, TMPDIR, HOME, XDG
	// directories — the durable state a process can leave behind); their outcome is ignored. Every run
	// without Before starts in a fresh world.
	Before  []RunSpec     `json:"before,omitempty"`
	Program *spec.Program `json:"program,omitempty"` // nil: same as the case's program
	Config  *ConfigFile   `json:"config_file,omitempty"`
	Params  []string      `json:"params"`
	Env     []string      `json:"env,omitempty"` // extra environment (GOMAXPROCS, GOGC, TZ ...)
	Chunks  []int         `json:"stdin_chunks,omitempty"`
	Sim     *Schedule     `json:"sim,omitempty"` // nil: uninstrumented binary
	Note    string        `json:"note,omitempty"`
}

// Expect is the oracle of a case.
type Expect struct {
	// Kind: identical-stdout | identical-file | fails | atomic | atomic-one
	Kind     string   `json:"kind"`
	Roots    []string `json:"roots,omitempty"`    // all selected roots
	Affected []string `json:"affected,omitempty"` // roots that must be absent (atomic)
	// Restored: roots that must be generated whole but whose text is not compared with the twin's (the
	// twin's message is field-less, the run's message has one excluded field: different descriptors)
	Restored []string `json:"restored,omitempty"`
}

// Case is reference run + run + expectation; serialised, it is the replay file.
type Case struct {
	Property string        `json:"property"`
	Clause   string        `json:"clause"`
	Seed     uint64        `json:"seed"`
	Tier     string        `json:"tier,omitempty"`
	Program  *spec.Program `json:"program"`
	Ref      *RunSpec      `json:"ref,omitempty"`
	Run      RunSpec       `json:"run"`
	Expect   Expect        `json:"expect"`
	// filled on violation
	Failures []string  `json:"failures,omitempty"`
	Observed *Observed `json:"observed,omitempty"`
}

// Observed summarises what a run showed (for replay files).
type Observed struct {
	RefExit    int    `json:"ref_exit"`
	RunExit    int    `json:"run_exit"`
	RefSHA     string `json:"ref_stdout_sha256"`
	RunSHA     string `json:"run_stdout_sha256"`
	RunStderr  string `json:"run_stderr_tail"`
	FirstDiff  string `json:"first_diff,omitempty"`
	EventsTail string `json:"events_tail,omitempty"`
}

// Outcome of executing one RunSpec.
type Outcome struct {
	Exit   int
	Stdout []byte
	Stderr []byte
	Events []string
	Err    error
}

// Engine holds the binaries and the scratch directory of one check.
type Engine struct {
	Work     string
	PlainBin string
	SimBin   string
	runN     int64

	mu        sync.Mutex
	Runs      int64
	FaultHits map[string]int // fault kind -> times it actually fired
	MapSites  map[string]int // site -> calls with n>=2 observed
	OrderVecs map[string]bool
	refCache  map[string]*refEntry

	PreservationNote string
}

func NewEngine(work string) *Engine {
	return &Engine{Work: work, FaultHits: map[string]int{}, MapSites: map[string]int{}, OrderVecs: map[string]bool{}}
}

var longName = strings.Repeat("n", 300)

// Exec performs one run.
func (e *Engine) Exec(prog *spec.Program, rs *RunSpec) Outcome {
	n := atomic.AddInt64(&e.runN, 1)
	atomic.AddInt64(&e.Runs, 1)
	dir := filepath.Join(e.Work, "runs", fmt.Sprintf("r%06d", n))
	if err := os.MkdirAll(dir, 0o755); err != nil {
		return Outcome{Err: err}
	}
	defer os.RemoveAll(dir)
	if rs.Program != nil {
		prog = rs.Program
	}
	cfgParam := ""
	if rs.Config != nil {
		switch rs.Config.Mode {
		case "file":
			cfgParam = "config.yaml"
			real := cfgParam
			mode := os.FileMode(0o644)
			switch rs.Config.Via {
			case "":
			case "absolute":
				cfgParam = filepath.Join(dir, "config.yaml")
			case "subdir":
				os.MkdirAll(filepath.Join(dir, "conf.d", "tf"), 0o755)
				cfgParam = "conf.d/tf/config.yaml"
				real = cfgParam
			case "dotdot":
				os.MkdirAll(filepath.Join(dir, "sub"), 0o755)
				cfgParam = "sub/../config.yaml"
			case "symlink":
				real = "real-config.yaml"
				os.Symlink(real, filepath.Join(dir, cfgParam))
			case "symlink-chain":
				real = "real-config.yaml"
				os.Symlink(real, filepath.Join(dir, "link1.yaml"))
				os.Symlink(filepath.Join(dir, "link1.yaml"), filepath.Join(dir, cfgParam))
			case "symlink-dir":
				os.MkdirAll(filepath.Join(dir, "realdir"), 0o755)
				os.Symlink("realdir", filepath.Join(dir, "linkdir"))
				real = "realdir/config.yaml"
				cfgParam = "linkdir/config.yaml"
			case "hardlink":
				real = "real-config.yaml"
			case "spaces":
				cfgParam = "my config (v2) \u00fc.yaml"
				real = cfgParam
			case "noext":
				cfgParam = "tfconfig"
				real = cfgParam
			case "hidden":
				cfgParam = ".config.yml"
				real = cfgParam
			case "json-ext":
				cfgParam = "config.json" // the content is what it is; the name of the file means nothing
				real = cfgParam
			case "upper-ext":
				cfgParam = "CONFIG.YAML"
				real = cfgParam
			case "readonly":
				mode = 0o400
			default:
				return Outcome{Err: fmt.Errorf("unknown config path shape %q", rs.Config.Via)}
			}
			if err := os.WriteFile(filepath.Join(dir, real), []byte(rs.Config.Content), mode); err != nil {
				return Outcome{Err: err}
			}
			if rs.Config.Via == "hardlink" {
				if err := os.Link(filepath.Join(dir, real), filepath.Join(dir, cfgParam)); err != nil {
					return Outcome{Err: err}
				}
			}
		case "missing":
			cfgParam = "no-such-config.yaml"
		case "dir":
			cfgParam = "confdir"
			os.Mkdir(filepath.Join(dir, cfgParam), 0o755)
		case "dangling":
			cfgParam = "dangling.yaml"
			os.Symlink("nowhere.yaml", filepath.Join(dir, cfgParam))
		case "loop":
			cfgParam = "loop.yaml"
			os.Symlink("loop.yaml", filepath.Join(dir, cfgParam))
		case "notdir":
			os.WriteFile(filepath.Join(dir, "plainfile"), []byte("types: [A]\n"), 0o644)
			cfgParam = "plainfile/config.yaml"
		case "toolong":
			cfgParam = longName + ".yaml"
		case "procmem":
			cfgParam = "/proc/self/mem"
		default:
			return Outcome{Err: fmt.Errorf("unknown config mode %q", rs.Config.Mode)}
		}
	}
	ps := append([]string{}, rs.Params...)
	if cfgParam != "" {
		ps = append([]string{"config=" + cfgParam}, ps...)
	}
	req, err := prog.RequestBytes(strings.Join(ps, ","))
	if err != nil {
		return Outcome{Err: err}
	}
	bin := e.PlainBin
	env := pipeline.MinimalEnv(rs.Env...)
	// the simulated disk of this run: nothing outside it is writable state shared between runs
	for _, d := range []string{"tmp", "home", "cache", "xdgconfig"} {
		os.MkdirAll(filepath.Join(dir, "world", d), 0o755)
	}
	world := filepath.Join(dir, "world")
	env = append(env, "TMPDIR="+filepath.Join(world, "tmp"), "HOME="+filepath.Join(world, "home"),
		"XDG_CACHE_HOME="+filepath.Join(world, "cache"), "XDG_CONFIG_HOME="+filepath.Join(world, "xdgconfig"))
	for bi, b := range rs.Before {
		bp := ""
		if b.Config != nil && b.Config.Mode == "file" {
			bp = fmt.Sprintf("before%d.yaml", bi)
			if err := os.WriteFile(filepath.Join(dir, bp), []byte(b.Config.Content), 0o644); err != nil {
				return Outcome{Err: err}
			}
		}
		bps := append([]string{}, b.Params...)
		if bp != "" {
			bps = append([]string{"config=" + bp}, bps...)
		}
		bprog := prog
		if b.Program != nil {
			bprog = b.Program
		}
		breq, err := bprog.RequestBytes(strings.Join(bps, ","))
		if err != nil {
			return Outcome{Err: err}
		}
		bbin := e.PlainBin
		if bbin == "" {
			bbin = e.SimBin
		}
		benv := append(append([]string{}, env...), b.Env...)
		if r := pipeline.RunPlugin(bbin, breq, pipeline.RunOpts{Dir: dir, Env: benv}); r.Err != nil {
			return Outcome{Err: fmt.Errorf("earlier run %d of the history: %v", bi, r.Err)}
		}
		atomic.AddInt64(&e.Runs, 1)
	}
	logPath := ""
	if rs.Sim != nil {
		bin = e.SimBin
		s := *rs.Sim
		logPath = filepath.Join(dir, "sim.log")
		s.Log = logPath
		b, _ := json.Marshal(s)
		sp := filepath.Join(dir, "sim.json")
		if err := os.WriteFile(sp, b, 0o644); err != nil {
			return Outcome{Err: err}
		}
		env = append(env, "VERIF_SIM="+sp)
	}
	if bin == "" {
		return Outcome{Err: fmt.Errorf("binary not built for this run (sim=%v)", rs.Sim != nil)}
	}
	res := pipeline.RunPlugin(bin, req, pipeline.RunOpts{Dir: dir, Env: env, Chunks: rs.Chunks})
	out := Outcome{Exit: res.Exit, Stdout: res.Stdout, Stderr: res.Stderr, Err: res.Err}
	if logPath != "" {
		if b, err := os.ReadFile(logPath); err == nil {
			out.Events = strings.Split(strings.TrimRight(string(b), "\n"), "\n")
		}
		e.account(rs, out.Events)
	}
	return out
}

var mapEvRe = regexp.MustCompile(`^map (\S+) call=\d+ n=(\d+) mode=(\S+)`)

func (e *Engine) account(rs *RunSpec, events []string) {
	e.mu.Lock()
	defer e.mu.Unlock()
	var vec strings.Builder
	for _, l := range events {
		switch {
		case strings.HasPrefix(l, "map "):
			if m := mapEvRe.FindStringSubmatch(l); m != nil && m[2] != "0" && m[2] != "1" {
				e.MapSites[m[1]]++
				vec.WriteString(l)
			}
		case strings.HasPrefix(l, "read ") && !strings.Contains(l, "fault=none"):
			e.FaultHits["read:"+rs.Sim.ReadFault]++
		case strings.HasSuffix(l, "INJECTED"):
			e.FaultHits["inject-build-error"]++
		}
	}
	if vec.Len() > 0 {
		h := sha256.Sum256([]byte(vec.String()))
		e.OrderVecs[hex.EncodeToString(h[:8])] = true
	}
}

// execRef runs a reference RunSpec once per distinct (program, spec) and caches the outcome.
func (e *Engine) execRef(prog *spec.Program, rs *RunSpec) Outcome {
	if rs.Program != nil {
		prog = rs.Program
	}
	pb, _ := json.Marshal(prog)
	r := *rs
	r.Note = ""
	rb, _ := json.Marshal(r)
	key := sha(append(pb, rb...))
	e.mu.Lock()
	if e.refCache == nil {
		e.refCache = map[string]*refEntry{}
	}
	ent, ok := e.refCache[key]
	if !ok {
		ent = &refEntry{}
		e.refCache[key] = ent
	}
	e.mu.Unlock()
	ent.once.Do(func() { ent.out = e.Exec(prog, rs) })
	return ent.out
}

type refEntry struct {
	once sync.Once
	out  Outcome
}

func sha(b []byte) string {
	h := sha256.Sum256(b)
	return hex.EncodeToString(h[:])
}

// responseFile extracts the single generated file (name, content); ok=false if there is none.
func responseFile(stdout []byte) (name, content, respErr string, nfiles int, err error) {
	if len(stdout) == 0 {
		return "", "", "", 0, nil
	}
	r, e := pipeline.Response(stdout)
	if e != nil {
		return "", "", "", 0, e
	}
	if len(r.File) > 0 {
		name, content = r.File[0].GetName(), r.File[0].GetContent()
	}
	return name, content, r.GetError(), len(r.File), nil
}

// funcsOf returns name -> source text of every top-level function of a Go file.
func funcsOf(src string) (map[string]string, error) {
	fset := token.NewFileSet()
	f, err := parser.ParseFile(fset, "gen.go", src, parser.ParseComments)
	if err != nil {
		return nil, err
	}
	r := map[string]string{}
	tf := fset.File(f.Pos())
	for _, d := range f.Decls {
		fd, ok := d.(*ast.FuncDecl)
		if !ok || fd.Recv != nil {
			continue
		}
		start := fd.Pos()
		if fd.Doc != nil {
			start = fd.Doc.Pos()
		}
		r[fd.Name.Name] = src[tf.Offset(start):tf.Offset(fd.End())]
	}
	return r, nil
}

func rootFuncs(root string) []string {
	return []string{"GenSchema" + root, "Copy" + root + "FromTerraform", "Copy" + root + "ToTerraform"}
}

var timeRe = regexp.MustCompile(`time="[^"]*"\s*`)

func stderrLines(b []byte) []string {
	var r []string
	for _, l := range strings.Split(string(b), "\n") {
		l = strings.TrimSpace(timeRe.ReplaceAllString(l, ""))
		if l != "" {
			r = append(r, l)
		}
	}
	return r
}

func wordIn(line, w string) bool {
	re := regexp.MustCompile(`(^|[^A-Za-z0-9_])` + regexp.QuoteMeta(w) + `([^A-Za-z0-9_]|$)`)
	return re.MatchString(line)
}

func firstDiff(a, b []byte) string {
	n := len(a)
	if len(b) < n {
		n = len(b)
	}
	i := 0
	for i < n && a[i] == b[i] {
		i++
	}
	if i == n && len(a) == len(b) {
		return ""
	}
	ctx := func(x []byte) string {
		s, e := i-60, i+60
		if s < 0 {
			s = 0
		}
		if e > len(x) {
			e = len(x)
		}
		return fmt.Sprintf("%q", x[s:e])
	}
	return fmt.Sprintf("offset %d: ref=%s run=%s", i, ctx(a), ctx(b))
}

// HarnessError marks a broken harness invariant (exit 2, never a violation).
type HarnessError struct{ Msg string }

func (h *HarnessError) Error() string { return h.Msg }

// Evaluate executes the case and returns the failures of its expectation (nil = holds).
func (e *Engine) Evaluate(c *Case) ([]string, error) {
	var ref Outcome
	if c.Ref != nil {
		ref = e.execRef(c.Program, c.Ref)
		if ref.Err != nil {
			return nil, &HarnessError{"reference run: " + ref.Err.Error()}
		}
		// harness invariant: the reference run speaks the plugin protocol
		_, _, rerr, nf, err := responseFile(ref.Stdout)
		// (for a byte comparison of whole responses any well-formed response will do as reference, also one
		// that carries an error or no file)
		wholeResponse := c.Expect.Kind == "identical-stdout"
		if ref.Exit != 0 || err != nil || (!wholeResponse && (rerr != "" || nf != 1)) {
			return nil, &HarnessError{fmt.Sprintf("reference run did not produce one file: exit=%d files=%d err=%v resperr=%q stderr=%s",
				ref.Exit, nf, err, rerr, tailStr(ref.Stderr, 1500))}
		}
	}
	run := e.Exec(c.Program, &c.Run)
	if run.Err != nil {
		return nil, &HarnessError{"run: " + run.Err.Error()}
	}
	if run.Exit == 97 {
		return nil, &HarnessError{"instrumented child could not read its schedule: " + tailStr(run.Stderr, 500)}
	}
	var fails []string
	obs := &Observed{RefExit: ref.Exit, RunExit: run.Exit, RefSHA: sha(ref.Stdout), RunSHA: sha(run.Stdout),
		RunStderr: tailStr(run.Stderr, 1200), EventsTail: tailStr([]byte(strings.Join(run.Events, "\n")), 1500)}
	switch c.Expect.Kind {
	case "identical-stdout":
		if run.Exit != ref.Exit {
			fails = append(fails, fmt.Sprintf("exit status differs: ref=%d run=%d", ref.Exit, run.Exit))
		}
		if !bytes.Equal(ref.Stdout, run.Stdout) {
			obs.FirstDiff = firstDiff(ref.Stdout, run.Stdout)
			// show the difference inside the generated file when both responses carry one
			if _, rc, _, rn, e1 := responseFile(ref.Stdout); e1 == nil && rn == 1 {
				if _, xc, _, xn, e2 := responseFile(run.Stdout); e2 == nil && xn == 1 && rc != xc {
					obs.FirstDiff = "in the generated file, " + firstDiff([]byte(rc), []byte(xc))
				}
			}
			fails = append(fails, "response bytes differ from the reference run: "+obs.FirstDiff)
		}
	case "identical-file":
		_, rc, _, _, _ := responseFile(ref.Stdout)
		_, xc, xerr, nf, err := responseFile(run.Stdout)
		if run.Exit != 0 || err != nil || xerr != "" || nf != 1 {
			fails = append(fails, fmt.Sprintf("run did not generate: exit=%d files=%d resperr=%q parse=%v", run.Exit, nf, xerr, err))
		} else if rc != xc {
			obs.FirstDiff = firstDiff([]byte(rc), []byte(xc))
			fails = append(fails, "generated file differs from the reference channel: "+obs.FirstDiff)
		}
	case "fails":
		if c.Run.Sim != nil && c.Run.Sim.ReadFault != "" {
			fired := false
			for _, l := range run.Events {
				if strings.HasPrefix(l, "read ") && strings.Contains(l, "fault="+c.Run.Sim.ReadFault) {
					fired = true
				}
			}
			if !fired {
				// the tree reads its configuration through a call the seam does not own: the fault was
				// not injected, so this case decides nothing (counted, never a violation)
				e.mu.Lock()
				e.FaultHits["read-seam-not-reached"]++
				e.mu.Unlock()
				break
			}
		}
		_, _, xerr, nf, err := responseFile(run.Stdout)
		if err != nil {
			fails = append(fails, "stdout is neither empty nor a response: "+err.Error())
		}
		if run.Exit == 0 && xerr == "" {
			fails = append(fails, "plugin reported success (exit 0, no error in response)")
		}
		if nf != 0 {
			fails = append(fails, fmt.Sprintf("response still carries %d generated file(s)", nf))
		}
	case "atomic", "atomic-one":
		fails = append(fails, e.evalAtomic(c, ref, run)...)
	default:
		return nil, &HarnessError{"unknown expectation " + c.Expect.Kind}
	}
	if len(fails) > 0 {
		c.Failures = fails
		c.Observed = obs
	}
	return fails, nil
}

func (e *Engine) evalAtomic(c *Case, ref, run Outcome) []string {
	var fails []string
	_, xc, xerr, nf, err := responseFile(run.Stdout)
	if run.Exit != 0 || err != nil || xerr != "" || nf != 1 {
		return []string{fmt.Sprintf("no response file although other types are mappable: exit=%d files=%d resperr=%q parse=%v", run.Exit, nf, xerr, err)}
	}
	_, rc, _, _, _ := responseFile(ref.Stdout)
	rf, err := funcsOf(rc)
	if err != nil {
		return []string{"reference output does not parse: " + err.Error()}
	}
	xf, err := funcsOf(xc)
	if err != nil {
		return []string{"output does not parse as Go: " + err.Error()}
	}
	affected := map[string]bool{}
	for _, a := range c.Expect.Affected {
		affected[a] = true
	}
	var dropped []string
	for _, root := range c.Expect.Roots {
		present := 0
		for _, fn := range rootFuncs(root) {
			if _, ok := xf[fn]; ok {
				present++
			}
		}
		switch present {
		case 0:
			dropped = append(dropped, root)
		case 3:
		default:
			fails = append(fails, fmt.Sprintf("type %s is generated partially (%d of 3 functions)", root, present))
			continue
		}
		if c.Expect.Kind == "atomic" {
			if affected[root] && present != 0 {
				fails = append(fails, fmt.Sprintf("type %s has an unmappable reachable field but its functions are emitted", root))
			}
			if !affected[root] && present == 0 {
				fails = append(fails, fmt.Sprintf("type %s is not affected but was dropped", root))
			}
		}
		restored := false
		for _, r := range c.Expect.Restored {
			restored = restored || r == root
		}
		if present == 3 && !affected[root] && !restored {
			for _, fn := range rootFuncs(root) {
				if r, ok := rf[fn]; ok && r != xf[fn] {
					fails = append(fails, fmt.Sprintf("function %s of unaffected type changed: %s", fn, firstDiff([]byte(r), []byte(xf[fn]))))
				}
			}
		}
	}
	if c.Expect.Kind == "atomic-one" && len(dropped) != 1 {
		fails = append(fails, fmt.Sprintf("an injected mapping failure must drop exactly the type being built; dropped=%v", dropped))
	}
	// a diagnostic naming each dropped type: a stderr line the reference run does not have
	refLines := map[string]bool{}
	for _, l := range stderrLines(ref.Stderr) {
		refLines[l] = true
	}
	for _, d := range dropped {
		named := false
		for _, l := range stderrLines(run.Stderr) {
			// informational lines (the configuration dump lists every selected type, in map order) are not diagnostics
			if strings.Contains(l, "level=info") || strings.Contains(l, "level=debug") || strings.Contains(l, "level=trace") {
				continue
			}
			if !refLines[l] && wordIn(l, d) {
				named = true
			}
		}
		if !named {
			fails = append(fails, fmt.Sprintf("type %s was dropped without a log line naming it", d))
		}
	}
	return fails
}

func tailStr(b []byte, n int) string {
	if len(b) > n {
		b = b[len(b)-n:]
	}
	return string(b)
}

// RunCases evaluates cases in parallel; returns the violating cases in input order.
func (e *Engine) RunCases(cases []*Case, workers int) ([]*Case, error) {
	type res struct {
		i     int
		fails []string
		err   error
	}
	if workers <= 0 {
		workers = 16
	}
	ch := make(chan int)
	out := make(chan res)
	var wg sync.WaitGroup
	for w := 0; w < workers; w++ {
		wg.Add(1)
		go func() {
			defer wg.Done()
			for i := range ch {
				f, err := e.Evaluate(cases[i])
				out <- res{i, f, err}
			}
		}()
	}
	go func() {
		for i := range cases {
			ch <- i
		}
		close(ch)
		wg.Wait()
		close(out)
	}()
	var bad []int
	var herr error
	for r := range out {
		if r.err != nil && herr == nil {
			herr = r.err
		}
		if len(r.fails) > 0 {
			bad = append(bad, r.i)
		}
	}
	if herr != nil {
		return nil, herr
	}
	sort.Ints(bad)
	var v []*Case
	for _, i := range bad {
		v = append(v, cases[i])
	}
	return v, nil
}

// WriteReplay stores the case as a replay file and returns its path.
func WriteReplay(dir string, c *Case, idx int) (string, error) {
	if err := os.MkdirAll(dir, 0o755); err != nil {
		return "", err
	}
	p := filepath.Join(dir, fmt.Sprintf("%s-%d-%d.json", c.Property, c.Seed, idx))
	b, err := json.MarshalIndent(c, "", " ")
	if err != nil {
		return "", err
	}
	return p, os.WriteFile(p, b, 0o644)
}

// Now is a wall-clock helper for evidence only (never for decisions).
func Now() time.Time { return time.Now() }
