package gensim

import (
	"encoding/json"
	"sort"
	"strings"

	"verif/spec"
)

func cloneCase(c *Case) *Case {
	b, _ := json.Marshal(c)
	n := &Case{}
	_ = json.Unmarshal(b, n)
	n.Failures, n.Observed = nil, nil
	return n
}

func failClass(fails []string) string {
	var ks []string
	seen := map[string]bool{}
	for _, f := range fails {
		k := f
		if i := strings.IndexAny(k, ":("); i > 0 {
			k = k[:i]
		}
		if !seen[k] {
			seen[k] = true
			ks = append(ks, k)
		}
	}
	sort.Strings(ks)
	return strings.Join(ks, "|")
}

// Minimise switches whole dimensions of the run back to the reference while the same class of
// violation persists, then narrows the map-order dimension to the responsible sites.
func (e *Engine) Minimise(c *Case) *Case {
	best := cloneCase(c)
	fails, err := e.Evaluate(best)
	if err != nil || len(fails) == 0 {
		// not reproducible in a second execution: report the original, marked
		c.Failures = append(c.Failures, "NOTE: did not reproduce on immediate re-execution (unowned nondeterminism)")
		return c
	}
	class := failClass(fails)
	try := func(mut func(*Case)) {
		n := cloneCase(best)
		mut(n)
		f, err := e.Evaluate(n)
		if err == nil && len(f) > 0 && failClass(f) == class {
			best = n
		}
	}
	try(func(n *Case) { n.Run.Env = nil })
	try(func(n *Case) { n.Run.Chunks = nil })
	if best.Ref != nil && best.Ref.Sim != nil && best.Run.Sim != nil {
		try(func(n *Case) {
			n.Run.Sim.ClockEpoch, n.Run.Sim.ClockStepNs = n.Ref.Sim.ClockEpoch, n.Ref.Sim.ClockStepNs
		})
		try(func(n *Case) { n.Run.Sim.MapMode, n.Run.Sim.Seed = "identity", 0 })
	}
	if best.Ref != nil && strings.HasPrefix(best.Expect.Kind, "identical") {
		try(func(n *Case) { n.Run.Config, n.Run.Params = n.Ref.Config, n.Ref.Params })
	}
	// narrow map order to the responsible sites
	if best.Run.Sim != nil && best.Run.Sim.MapMode != "identity" && best.Run.Sim.MapMode != "" {
		out := e.Exec(best.Program, &best.Run)
		siteSet := map[string]bool{}
		for _, l := range out.Events {
			if m := mapEvRe.FindStringSubmatch(l); m != nil && m[2] != "0" && m[2] != "1" {
				siteSet[m[1]] = true
			}
		}
		var sites []string
		for s := range siteSet {
			sites = append(sites, s)
		}
		sort.Strings(sites)
		for _, s := range sites {
			s := s
			try(func(n *Case) {
				if n.Run.Sim.MapOverrides == nil {
					n.Run.Sim.MapOverrides = map[string]string{}
				}
				n.Run.Sim.MapOverrides[s] = "identity"
			})
		}
	}
	// shrink the program: the rendered configuration is kept as it is (keys that name deleted
	// messages or fields are ignored by the plugin), whole messages are dropped first, then fields
	if best.Ref == nil || best.Ref.Program == nil {
		budget := 120
		refs := func(p *spec.Program, name string) bool {
			for _, m := range p.Messages {
				if m.Name == name {
					continue
				}
				for _, f := range m.Fields {
					if f.Ref == name {
						return true
					}
				}
			}
			return false
		}
		for i := len(best.Program.Messages) - 1; i >= 0 && budget > 0; i-- {
			name := best.Program.Messages[i].Name
			if refs(best.Program, name) {
				continue
			}
			budget--
			try(func(n *Case) {
				n.Program.Messages = append(append([]spec.Message{}, n.Program.Messages[:i]...), n.Program.Messages[i+1:]...)
			})
			if i > len(best.Program.Messages) {
				i = len(best.Program.Messages)
			}
		}
		for mi := len(best.Program.Messages) - 1; mi >= 0 && budget > 0; mi-- {
			for fi := len(best.Program.Messages[mi].Fields) - 1; fi >= 0 && budget > 0; fi-- {
				if len(best.Program.Messages[mi].Fields) <= 1 {
					break
				}
				budget--
				mi, fi := mi, fi
				try(func(n *Case) {
					fs := n.Program.Messages[mi].Fields
					gone := fs[fi]
					n.Program.Messages[mi].Fields = append(append([]spec.Field{}, fs[:fi]...), fs[fi+1:]...)
					// a oneof declaration must keep at least one member
					if gone.Oneof != "" {
						left := false
						for _, f := range n.Program.Messages[mi].Fields {
							left = left || f.Oneof == gone.Oneof
						}
						if !left {
							var os []string
							for _, o := range n.Program.Messages[mi].Oneofs {
								if o != gone.Oneof {
									os = append(os, o)
								}
							}
							n.Program.Messages[mi].Oneofs = os
						}
					}
				})
			}
		}
	}
	final, _ := e.Evaluate(best)
	best.Failures = final
	if best.Failures == nil {
		return c
	}
	return best
}
