package gensim

import (
	"encoding/json"
	"sort"
	"strings"
)

func cloneCase(c *Case) *Case {
	b, _ := json.Marshal(c)
	n := &Case{}
	_ = json.Unmarshal(b, n)
	n.Failures, n.Observed = nil, nil
	return n
}

func failClass(fails []string) string {
	var ks []string
	seen := map[string]bool{}
	for _, f := range fails {
		k := f
		if i := strings.IndexAny(k, ":("); i > 0 {
			k = k[:i]
		}
		if !seen[k] {
			seen[k] = true
			ks = append(ks, k)
		}
	}
	sort.Strings(ks)
	return strings.Join(ks, "|")
}

// Minimise switches whole dimensions of the run back to the reference while the same class of
// violation persists, then narrows the map-order dimension to the responsible sites.
func (e *Engine) Minimise(c *Case) *Case {
	best := cloneCase(c)
	fails, err := e.Evaluate(best)
	if err != nil || len(fails) == 0 {
		// not reproducible in a second execution: report the original, marked
		c.Failures = append(c.Failures, "NOTE: did not reproduce on immediate re-execution (unowned nondeterminism)")
		return c
	}
	class := failClass(fails)
	try := func(mut func(*Case)) {
		n := cloneCase(best)
		mut(n)
		f, err := e.Evaluate(n)
		if err == nil && len(f) > 0 && failClass(f) == class {
			best = n
		}
	}
	try(func(n *Case) { n.Run.Env = nil })
	try(func(n *Case) { n.Run.Chunks = nil })
	if best.Ref != nil && best.Ref.Sim != nil && best.Run.Sim != nil {
		try(func(n *Case) {
			n.Run.Sim.ClockEpoch, n.Run.Sim.ClockStepNs = n.Ref.Sim.ClockEpoch, n.Ref.Sim.ClockStepNs
		})
		try(func(n *Case) { n.Run.Sim.MapMode, n.Run.Sim.Seed = "identity", 0 })
	}
	if best.Ref != nil && strings.HasPrefix(best.Expect.Kind, "identical") {
		try(func(n *Case) { n.Run.Config, n.Run.Params = n.Ref.Config, n.Ref.Params })
	}
	// narrow map order to the responsible sites
	if best.Run.Sim != nil && best.Run.Sim.MapMode != "identity" && best.Run.Sim.MapMode != "" {
		out := e.Exec(best.Program, &best.Run)
		siteSet := map[string]bool{}
		for _, l := range out.Events {
			if m := mapEvRe.FindStringSubmatch(l); m != nil && m[2] != "0" && m[2] != "1" {
				siteSet[m[1]] = true
			}
		}
		var sites []string
		for s := range siteSet {
			sites = append(sites, s)
		}
		sort.Strings(sites)
		for _, s := range sites {
			s := s
			try(func(n *Case) {
				if n.Run.Sim.MapOverrides == nil {
					n.Run.Sim.MapOverrides = map[string]string{}
				}
				n.Run.Sim.MapOverrides[s] = "identity"
			})
		}
	}
	// shrink the selected root set while the violation persists (identical-* expectations only)
	if strings.HasPrefix(best.Expect.Kind, "identical") && best.Ref != nil {
		// only when types are carried as a CLI parameter or YAML list we can not cheaply edit the
		// rendered text; left as is. The program itself is shrunk by dropping unreachable messages.
	}
	final, _ := e.Evaluate(best)
	best.Failures = final
	if best.Failures == nil {
		return c
	}
	return best
}
