// Package pipeline is the protoc-free route from a shape spec to generated code (DESIGN.md §4.1).
package pipeline

import (
	"bytes"
	"context"
	"fmt"
	"io"
	"os"
	"os/exec"
	"path/filepath"
	"sort"
	"strings"
	"time"

	"github.com/gogo/protobuf/proto"
	plugin "github.com/gogo/protobuf/protoc-gen-gogo/plugin"
	"github.com/gogo/protobuf/vanity/command"

	"verif/spec"
)

// RepoDir is the tree under test.
var RepoDir = envOr("VERIF_REPO", "/repo")

func envOr(k, d string) string {
	if v := os.Getenv(k); v != "" {
		return v
	}
	return d
}

// GoEnv returns the environment for offline go commands.
func GoEnv() []string {
	env := os.Environ()
	env = append(env, "GOFLAGS=-mod=mod", "GOPROXY=off", "GOSUMDB=off", "GOTOOLCHAIN=local", "GONOSUMDB=*", "GONOSUMCHECK=1")
	return env
}

// BuildError marks build trouble (exit 2, never a violation).
type BuildError struct {
	What string
	Out  string
}

func (e *BuildError) Error() string { return e.What + "\n" + e.Out }

// BuildPlugin compiles the plugin from the current working tree of RepoDir, optionally through an
// overlay file.
func BuildPlugin(out string, overlay string) error {
	args := []string{"build", "-o", out}
	if overlay != "" {
		args = append(args, "-overlay", overlay)
	}
	args = append(args, ".")
	cmd := exec.Command("go", args...)
	cmd.Dir = RepoDir
	cmd.Env = GoEnv()
	if overlay != "" {
		// the module index caches the import lists of module-cache packages and would hide imports
		// added by overlay files of dependency packages
		cmd.Env = append(cmd.Env, "GODEBUG=goindex=0")
	}
	b, err := cmd.CombinedOutput()
	if err != nil {
		return &BuildError{What: "go build of the plugin failed", Out: string(b)}
	}
	return nil
}

// RunOpts controls one child-process run of the plugin.
type RunOpts struct {
	Dir     string
	Env     []string // full environment; nil = minimal default
	Chunks  []int    // stdin chunk sizes (cycled); nil = single write
	Timeout time.Duration
}

// RunResult is what the parent observes.
type RunResult struct {
	Exit   int
	Stdout []byte
	Stderr []byte
	Err    error // spawn / timeout trouble (not an exit status)
}

// MinimalEnv is a small fixed environment for plugin runs.
func MinimalEnv(extra ...string) []string {
	return append([]string{"PATH=/usr/bin:/bin", "HOME=/nonexistent", "TZ=UTC", "GOFLAGS=-mod=mod", "GOPROXY=off"}, extra...)
}

// RunPlugin runs the plugin binary on a request.
func RunPlugin(bin string, req []byte, o RunOpts) RunResult {
	if o.Timeout == 0 {
		o.Timeout = 5 * time.Minute // a watchdog, not a property: a loaded machine with GOGC=1 and GOMAXPROCS=1 can take long
	}
	ctx, cancel := context.WithTimeout(context.Background(), o.Timeout)
	defer cancel()
	cmd := exec.CommandContext(ctx, bin)
	cmd.Dir = o.Dir
	cmd.Env = o.Env
	if cmd.Env == nil {
		cmd.Env = MinimalEnv()
	}
	var so, se bytes.Buffer
	cmd.Stdout, cmd.Stderr = &so, &se
	var res RunResult
	if len(o.Chunks) == 0 {
		cmd.Stdin = bytes.NewReader(req)
		if err := cmd.Start(); err != nil {
			res.Err = err
			return res
		}
	} else {
		w, err := cmd.StdinPipe()
		if err != nil {
			res.Err = err
			return res
		}
		if err := cmd.Start(); err != nil {
			res.Err = err
			return res
		}
		go func() {
			defer w.Close()
			rest := req
			for i := 0; len(rest) > 0; i++ {
				n := o.Chunks[i%len(o.Chunks)]
				if n <= 0 || n > len(rest) {
					n = len(rest)
				}
				if _, err := w.Write(rest[:n]); err != nil {
					return
				}
				rest = rest[n:]
			}
		}()
	}
	err := cmd.Wait()
	res.Stdout, res.Stderr = so.Bytes(), se.Bytes()
	if ctx.Err() != nil {
		res.Err = fmt.Errorf("plugin timed out after %v", o.Timeout)
		return res
	}
	if err != nil {
		if ee, ok := err.(*exec.ExitError); ok {
			res.Exit = ee.ExitCode()
		} else {
			res.Err = err
		}
	}
	return res
}

// Response parses stdout as a CodeGeneratorResponse. ok is false when stdout is not exactly one
// response.
func Response(stdout []byte) (*plugin.CodeGeneratorResponse, error) {
	if len(stdout) == 0 {
		return nil, fmt.Errorf("empty stdout")
	}
	r := &plugin.CodeGeneratorResponse{}
	if err := proto.Unmarshal(stdout, r); err != nil {
		return nil, err
	}
	return r, nil
}

// GogoMain is the body of the `gogo` helper subcommand: request on stdin, response on stdout,
// exactly what protoc-gen-gogo does.
func GogoMain() {
	req := command.Read()
	resp := command.Generate(req)
	command.Write(resp)
}

// Gogo runs gogo's generator on the request in a child process of ourselves (gogo calls os.Exit on
// errors).
func Gogo(self string, req []byte) ([]byte, error) {
	cmd := exec.Command(self, "gogo")
	cmd.Stdin = bytes.NewReader(req)
	var so, se bytes.Buffer
	cmd.Stdout, cmd.Stderr = &so, &se
	if err := cmd.Run(); err != nil {
		return nil, fmt.Errorf("gogo generator: %v: %s", err, se.String())
	}
	r, err := Response(so.Bytes())
	if err != nil {
		return nil, err
	}
	if r.Error != nil {
		return nil, fmt.Errorf("gogo generator: %s", r.GetError())
	}
	if len(r.File) != 1 {
		return nil, fmt.Errorf("gogo generator: %d files", len(r.File))
	}
	return []byte(r.File[0].GetContent()), nil
}

// CastsFile renders the Go file declaring the cast types of a program.
func CastsFile(p *spec.Program) []byte {
	var b strings.Builder
	fmt.Fprintf(&b, "package %s\n\n", p.Package)
	ct := p.CastTypes()
	names := make([]string, 0, len(ct))
	for n := range ct {
		names = append(names, n)
	}
	sort.Strings(names)
	for _, n := range names {
		fmt.Fprintf(&b, "type %s %s\n", n, ct[n])
	}
	return []byte(b.String())
}

// Generated is the output of one plain generation of a program.
type Generated struct {
	Terraform []byte
	PB        []byte
	Casts     []byte
	Stderr    []byte
}

// Generate runs plugin and gogo on program p with its own configuration delivered as YAML in dir.
func Generate(pluginBin, self string, p *spec.Program, dir string) (*Generated, error) {
	cfg := p.Config.Clone()
	cfg.Types = append(append([]string{}, p.Unbuildable...), cfg.Types...)
	r := cfg.Render(nil, nil)
	cfgPath := ""
	if r.YAML != "" {
		cfgPath = filepath.Join(dir, "config.yaml")
		if err := os.WriteFile(cfgPath, []byte(r.YAML), 0o644); err != nil {
			return nil, err
		}
	}
	req, err := p.RequestBytes(r.ParamString(cfgPath))
	if err != nil {
		return nil, err
	}
	res := RunPlugin(pluginBin, req, RunOpts{Dir: dir})
	if res.Err != nil {
		return nil, res.Err
	}
	if res.Exit != 0 {
		return nil, fmt.Errorf("plugin exit %d: %s", res.Exit, tail(res.Stderr, 2000))
	}
	resp, err := Response(res.Stdout)
	if err != nil {
		return nil, fmt.Errorf("plugin stdout: %v", err)
	}
	if resp.Error != nil || len(resp.File) != 1 {
		return nil, fmt.Errorf("plugin response: error=%q files=%d", resp.GetError(), len(resp.File))
	}
	g := &Generated{Terraform: []byte(resp.File[0].GetContent()), Stderr: res.Stderr, Casts: CastsFile(p)}
	preq, err := p.RequestBytes("")
	if err != nil {
		return nil, err
	}
	g.PB, err = Gogo(self, preq)
	if err != nil {
		return nil, err
	}
	return g, nil
}

func tail(b []byte, n int) string {
	if len(b) > n {
		b = b[len(b)-n:]
	}
	return string(b)
}

// CopyFile copies src to dst.
func CopyFile(src, dst string) error {
	in, err := os.Open(src)
	if err != nil {
		return err
	}
	defer in.Close()
	out, err := os.Create(dst)
	if err != nil {
		return err
	}
	defer out.Close()
	_, err = io.Copy(out, in)
	return err
}
