// Package simbuild installs the simulation seams by rewriting a view of the tree under test and
// building it with `go build -overlay` (DESIGN.md §4.2). Nothing is written into the repository.
package simbuild

import (
	_ "embed"
	"encoding/json"
	"fmt"
	"go/ast"
	"go/token"
	"go/types"
	"os"
	"os/exec"
	"path/filepath"
	"regexp"
	"sort"
	"strings"

	"golang.org/x/tools/go/packages"

	"verif/internal/pipeline"
)

//go:embed simrt.go.txt
var simrtSrc string

const (
	rtPkgName = "verifsimrt"
	rtPrefix  = "VerifSim"
)

// Report says what the rewriter did; it goes into the evidence.
type Report struct {
	Package        string   `json:"package"`
	Files          int      `json:"files"`
	RangeStmts     int      `json:"range_statements"`
	MapRangeSites  []string `json:"map_range_sites"`
	MapRangeNative []string `json:"map_range_left_native"`
	MapKeysSites   []string `json:"reflect_mapkeys_sites"`
	ClockSites     []string `json:"clock_sites"`
	ReadSites      []string `json:"read_sites"`
	FailFuncs      []string `json:"fallible_functions"`
	BuildExtent    bool     `json:"build_extent_marked"`
	GoStmts        []string `json:"go_statements"`
	SyncMapRange   []string `json:"sync_map_range_sites"`
}

type edit struct {
	start, end int
	text       string
	seq        int
}

// Instrumented is a built simulation binary plus the rewrite report.
type Instrumented struct {
	Bin     string
	Reports []Report
}

// TextPathDeps are the dependency packages whose code produces or orders text of the generated file.
var TextPathDeps = []string{
	"github.com/gogo/protobuf/protoc-gen-gogo/generator",
	"github.com/gogo/protobuf/vanity/command",
	"github.com/dave/jennifer/jen",
	"golang.org/x/tools/imports",
	"golang.org/x/tools/internal/imports",
	"github.com/stoewer/go-strcase",
}

// Build rewrites package main of the repository (and, with deps, the dependency packages on the
// text path), writes the overlay into dir, and builds the plugin to dir/plugin.sim. Every rewritten
// package carries its own copy of the runtime (appended to its first rewritten file, with aliased
// standard-library imports): a package added through the overlay cannot be imported from a
// dependency module. All copies read the same schedule and append to the same event log.
func Build(dir string, deps bool) (*Instrumented, error) {
	repo := pipeline.RepoDir
	cfg := &packages.Config{
		Mode: packages.NeedName | packages.NeedFiles | packages.NeedCompiledGoFiles | packages.NeedSyntax |
			packages.NeedTypes | packages.NeedTypesInfo | packages.NeedImports | packages.NeedDeps | packages.NeedModule,
		Dir: repo,
		Env: pipeline.GoEnv(),
	}
	pkgs, err := packages.Load(cfg, ".")
	if err != nil {
		return nil, &pipeline.BuildError{What: "go/packages load failed", Out: err.Error()}
	}
	if len(pkgs) != 1 {
		return nil, &pipeline.BuildError{What: fmt.Sprintf("go/packages: %d packages", len(pkgs))}
	}
	mainPkg := pkgs[0]
	if len(mainPkg.Errors) > 0 {
		var sb strings.Builder
		for _, e := range mainPkg.Errors {
			sb.WriteString(e.Error() + "\n")
		}
		return nil, &pipeline.BuildError{What: "package main of the repository does not type-check", Out: sb.String()}
	}
	ovDir := filepath.Join(dir, "overlay")
	if err := os.MkdirAll(ovDir, 0o755); err != nil {
		return nil, err
	}
	replace := map[string]string{}
	rep, err := rewritePackage(mainPkg, ovDir, replace, rtPrefix, true)
	if err != nil {
		return nil, err
	}
	reports := []Report{*rep}
	if deps {
		want := map[string]bool{}
		for _, d := range TextPathDeps {
			want[d] = true
		}
		seen := map[string]bool{}
		var found []*packages.Package
		var walk func(p *packages.Package)
		walk = func(p *packages.Package) {
			if seen[p.PkgPath] {
				return
			}
			seen[p.PkgPath] = true
			if want[p.PkgPath] {
				found = append(found, p)
			}
			for _, ip := range p.Imports {
				walk(ip)
			}
		}
		walk(mainPkg)
		sort.Slice(found, func(i, j int) bool { return found[i].PkgPath < found[j].PkgPath })
		for _, dp := range found {
			if len(dp.Syntax) == 0 || dp.TypesInfo == nil || len(dp.Syntax) != len(dp.CompiledGoFiles) {
				reports = append(reports, Report{Package: dp.PkgPath + " (not rewritten: no syntax/type information loaded)"})
				continue
			}
			r, err := rewritePackage(dp, ovDir, replace, rtPrefix, false)
			if err != nil {
				return nil, err
			}
			reports = append(reports, *r)
		}
	}
	ovJSON, _ := json.MarshalIndent(map[string]interface{}{"Replace": replace}, "", " ")
	ovPath := filepath.Join(dir, "overlay.json")
	if err := os.WriteFile(ovPath, ovJSON, 0o644); err != nil {
		return nil, err
	}
	bin := filepath.Join(dir, "plugin.sim")
	if err := pipeline.BuildPlugin(bin, ovPath); err != nil {
		return nil, err
	}
	return &Instrumented{Bin: bin, Reports: reports}, nil
}

var helperPkgs = []string{"json", "errors", "fmt", "os", "reflect", "sort", "strings", "sync", "syscall", "time"}

// helperSource splits the runtime template into an aliased import block and a body whose package
// references use the aliases (so it can live inside any package without clashing with its imports).
func helperSource() (imports, body string) {
	src := strings.ReplaceAll(simrtSrc, "PFX", rtPrefix)
	i := strings.Index(src, "import (")
	j := strings.Index(src[i:], ")") + i
	body = src[j+1:]
	paths := map[string]string{"json": "encoding/json", "errors": "errors", "fmt": "fmt", "os": "os", "reflect": "reflect", "sort": "sort",
		"strings": "strings", "sync": "sync", "syscall": "syscall", "time": "time"}
	var ib strings.Builder
	ib.WriteString("import (\n")
	for _, n := range helperPkgs {
		alias := "vsrt_" + n
		fmt.Fprintf(&ib, "\t%s %q\n", alias, paths[n])
		body = regexp.MustCompile(`(^|[^A-Za-z0-9_.])`+n+`\.`).ReplaceAllString(body, "${1}"+alias+".")
	}
	ib.WriteString(")\n")
	return ib.String(), body
}

func goRoot() (string, error) {
	cmd := exec.Command("go", "env", "GOROOT")
	cmd.Env = pipeline.GoEnv()
	b, err := cmd.Output()
	if err != nil {
		return "", &pipeline.BuildError{What: "go env GOROOT failed", Out: err.Error()}
	}
	return strings.TrimSpace(string(b)), nil
}

func relSite(fset *token.FileSet, pos token.Pos) string {
	p := fset.Position(pos)
	return fmt.Sprintf("%s:%d", filepath.Base(p.Filename), p.Line)
}

// rewritePackage rewrites every file of pkg that has at least one seam site.
// q is the qualifier+prefix for runtime calls ("verifsimrt.VerifSim"); importLine is added after
// the package clause of each rewritten file ("" when the runtime lives in the package itself).
func rewritePackage(pkg *packages.Package, outDir string, replace map[string]string, q string, injectErrors bool) (*Report, error) {
	return rewritePackageOpt(pkg, outDir, replace, q, injectErrors, true)
}

// rewritePackageOpt: withHelper=false when the package brings its own runtime (the converter harness).
func rewritePackageOpt(pkg *packages.Package, outDir string, replace map[string]string, q string, injectErrors, withHelper bool) (*Report, error) {
	helperDone := !withHelper
	rep := &Report{Package: pkg.PkgPath}
	info := pkg.TypesInfo
	fset := pkg.Fset
	counter := 0
	for i, f := range pkg.Syntax {
		fname := pkg.CompiledGoFiles[i]
		if !strings.HasSuffix(fname, ".go") {
			continue
		}
		src, err := os.ReadFile(fname)
		if err != nil {
			return nil, err
		}
		rep.Files++
		tf := fset.File(f.Pos())
		off := func(p token.Pos) int { return tf.Offset(p) }
		text := func(n ast.Node) string { return string(src[off(n.Pos()):off(n.End())]) }
		var edits []edit
		var keep []string // replaced package-qualified references, kept alive so imports stay used
		add := func(s, e int, t string) { edits = append(edits, edit{s, e, t, len(edits)}) }

		// labelled statements: loops carrying a label are left native
		labelled := map[ast.Stmt]bool{}
		ast.Inspect(f, func(n ast.Node) bool {
			if ls, ok := n.(*ast.LabeledStmt); ok {
				labelled[ls.Stmt] = true
			}
			return true
		})

		pkgOf := func(e ast.Expr) string {
			if id, ok := e.(*ast.Ident); ok {
				if pn, ok := info.Uses[id].(*types.PkgName); ok {
					return pn.Imported().Path()
				}
			}
			return ""
		}

		ast.Inspect(f, func(n ast.Node) bool {
			switch x := n.(type) {
			case *ast.GoStmt:
				rep.GoStmts = append(rep.GoStmts, relSite(fset, x.Pos()))
			case *ast.RangeStmt:
				rep.RangeStmts++
				tv, ok := info.Types[x.X]
				if !ok {
					return true
				}
				if _, isMap := tv.Type.Underlying().(*types.Map); !isMap {
					return true
				}
				site := relSite(fset, x.Pos())
				hasFuncLit := false
				ast.Inspect(x.X, func(m ast.Node) bool {
					if _, ok := m.(*ast.FuncLit); ok {
						hasFuncLit = true
					}
					return true
				})
				addressable := func(e ast.Expr) bool {
					if e == nil {
						return true
					}
					if id, ok := e.(*ast.Ident); ok {
						return id.Name != "" // includes _
					}
					if x.Tok == token.DEFINE {
						return true
					}
					if _, ok := e.(*ast.IndexExpr); ok {
						t := info.Types[e.(*ast.IndexExpr).X].Type
						if t != nil {
							if _, isMap := t.Underlying().(*types.Map); isMap {
								return false
							}
						}
					}
					return true
				}
				if labelled[x] || hasFuncLit || !addressable(x.Key) || !addressable(x.Value) {
					rep.MapRangeNative = append(rep.MapRangeNative, site)
					return true
				}
				counter++
				mv := fmt.Sprintf("__vsm%d", counter)
				kv := fmt.Sprintf("__vsk%d", counter)
				rep.MapRangeSites = append(rep.MapRangeSites, site)
				siteLit := fmt.Sprintf("%q", pkg.PkgPath+"/"+site)
				// { __m := X ; for k, v := range __m { for _, __k := range Keys(__m, site) { if !Has {continue}; Set...; BODY } ; break } }
				add(off(x.Pos()), off(x.Pos()), "{ "+mv+" := "+text(x.X)+"\n")
				add(off(x.X.Pos()), off(x.X.End()), mv)
				var sets strings.Builder
				// The key list is a snapshot. Entries the body adds to the map are visited or not at the
				// simulator's choice (More), like the runtime may or may not produce them; a `break` in the
				// body must leave both loops, hence the completion flag.
				ks, sn, ix, done := kv+"s", kv+"seen", kv+"i", kv+"done"
				fmt.Fprintf(&sets, "\n%s := %sSeen()\nfor %s := %sKeys(%s, %s); len(%s) > 0; %s = %sMore(%s, %s, %s) {\n%s := false\nfor %s := 0; ; %s++ {\nif %s == len(%s) { %s = true; break }\n%s := %s[%s]\n%sMark(%s, %s)\nif !%sHas(%s, %s) { continue }\n",
					sn, q, ks, q, mv, siteLit, ks, ks, q, mv, sn, siteLit, done, ix, ix, ix, ks, done, kv, ks, ix, q, sn, kv, q, mv, kv)
				isBlank := func(e ast.Expr) bool {
					id, ok := e.(*ast.Ident)
					return e == nil || (ok && id.Name == "_")
				}
				if !isBlank(x.Key) {
					fmt.Fprintf(&sets, "%sSet(&%s, %s)\n", q, text(x.Key), kv)
				}
				if !isBlank(x.Value) {
					fmt.Fprintf(&sets, "%sSet(&%s, %sAt(%s, %s))\n", q, text(x.Value), q, mv, kv)
				}
				add(off(x.Body.Lbrace)+1, off(x.Body.Lbrace)+1, sets.String())
				add(off(x.Body.Rbrace), off(x.Body.Rbrace), "\n}\nif !"+kv+"done { break }\n}\nbreak\n")
				add(off(x.End()), off(x.End()), "\n}")
			case *ast.CallExpr:
				sel, ok := x.Fun.(*ast.SelectorExpr)
				if !ok {
					return true
				}
				switch {
				case pkgOf(sel.X) == "time" && sel.Sel.Name == "Now":
					rep.ClockSites = append(rep.ClockSites, relSite(fset, x.Pos()))
					keep = append(keep, text(x.Fun))
					add(off(x.Fun.Pos()), off(x.Fun.End()), q+"Now")
				case (pkgOf(sel.X) == "io/ioutil" || pkgOf(sel.X) == "os") && sel.Sel.Name == "ReadFile":
					rep.ReadSites = append(rep.ReadSites, relSite(fset, x.Pos()))
					keep = append(keep, text(x.Fun))
					add(off(x.Fun.Pos()), off(x.Fun.End()), q+"ReadFile")
				case pkgOf(sel.X) == "os" && sel.Sel.Name == "Open" && len(x.Args) == 1:
					rep.ReadSites = append(rep.ReadSites, relSite(fset, x.Pos())+" (os.Open)")
					keep = append(keep, text(x.Fun))
					add(off(x.Fun.Pos()), off(x.Fun.End()), q+"Open")
				case sel.Sel.Name == "MapKeys" && len(x.Args) == 0:
					if t := info.Types[sel.X].Type; t != nil && t.String() == "reflect.Value" {
						site := relSite(fset, x.Pos())
						rep.MapKeysSites = append(rep.MapKeysSites, site)
						add(off(x.Pos()), off(x.Pos()), q+"SortKeys(")
						add(off(x.End()), off(x.End()), fmt.Sprintf(", %q)", pkg.PkgPath+"/"+site))
					}
				case sel.Sel.Name == "Range" && len(x.Args) == 1:
					if t := info.Types[sel.X].Type; t != nil && strings.HasSuffix(strings.TrimPrefix(t.String(), "*"), "sync.Map") {
						rep.SyncMapRange = append(rep.SyncMapRange, relSite(fset, x.Pos()))
					}
				}
			case *ast.FuncDecl:
				if x.Body == nil {
					return true
				}
				if injectErrors && x.Name.Name == "build" && x.Recv != nil {
					rep.BuildExtent = true
					add(off(x.Body.Lbrace)+1, off(x.Body.Lbrace)+1, "\n"+q+"EnterBuild()\ndefer "+q+"LeaveBuild()\n")
				}
				if !injectErrors || x.Type.Results == nil {
					return true
				}
				res := x.Type.Results.List
				last := res[len(res)-1]
				if id, ok := last.Type.(*ast.Ident); !ok || id.Name != "error" {
					return true
				}
				originates := false
				ast.Inspect(x.Body, func(m ast.Node) bool {
					c, ok := m.(*ast.CallExpr)
					if !ok {
						return true
					}
					s, ok := c.Fun.(*ast.SelectorExpr)
					if !ok {
						return true
					}
					switch pkgOf(s.X) {
					case "github.com/gravitational/trace":
						if !strings.HasPrefix(s.Sel.Name, "Wrap") && !strings.HasPrefix(s.Sel.Name, "Is") && !strings.HasPrefix(s.Sel.Name, "Unwrap") {
							originates = true
						}
					case "errors":
						if s.Sel.Name == "New" {
							originates = true
						}
					case "fmt":
						if s.Sel.Name == "Errorf" {
							originates = true
						}
					}
					return true
				})
				if !originates {
					return true
				}
				fn := x.Name.Name
				rep.FailFuncs = append(rep.FailFuncs, fn)
				var sb strings.Builder
				fmt.Fprintf(&sb, "\nif %sFail(%q) {\n", q, fn)
				var rets []string
				zi := 0
				for _, r := range res {
					cnt := len(r.Names)
					if cnt == 0 {
						cnt = 1
					}
					for j := 0; j < cnt; j++ {
						if r == last && j == cnt-1 {
							rets = append(rets, q+"ErrInjected")
							continue
						}
						zn := fmt.Sprintf("__vsz%d", zi)
						zi++
						fmt.Fprintf(&sb, "var %s %s\n", zn, text(r.Type))
						rets = append(rets, zn)
					}
				}
				fmt.Fprintf(&sb, "return %s\n}\n", strings.Join(rets, ", "))
				add(off(x.Body.Lbrace)+1, off(x.Body.Lbrace)+1, sb.String())
			}
			return true
		})
		if len(edits) == 0 {
			continue
		}
		for _, k := range keep {
			add(len(src), len(src), "\nvar _ = "+k+"\n")
		}
		// the first rewritten file of the package hosts the runtime: aliased imports right after the
		// package clause, the body at the end of the file
		if !helperDone {
			helperDone = true
			imp, body := helperSource()
			e := off(f.Name.End())
			add(e, e, "\n"+imp+"\n")
			add(len(src), len(src), "\n"+body+"\n")
		}
		// Apply from the end of the file backwards. At equal offsets: insertions recorded later
		// (inner constructs) must end up *before* earlier ones only for closings; for openings the
		// earlier (outer) one must come first. Because the sources are gofmt-ed, equal offsets only
		// occur between "EnterBuild"/"Fail" insertions at the same Lbrace, where order is free.
		// drop edits nested inside a replaced span (the replacement text was copied from the original)
		var kept []edit
		for _, b := range edits {
			inside := false
			for _, a := range edits {
				if a.seq != b.seq && a.start < a.end && b.start >= a.start && b.end <= a.end && !(b.start == a.start && b.end == a.end) {
					inside = true
				}
			}
			if !inside {
				kept = append(kept, b)
			}
		}
		edits = kept
		sort.SliceStable(edits, func(i, j int) bool {
			if edits[i].start != edits[j].start {
				return edits[i].start > edits[j].start
			}
			return edits[i].seq > edits[j].seq
		})
		out := append([]byte{}, src...)
		for _, e := range edits {
			out = append(out[:e.start], append([]byte(e.text), out[e.end:]...)...)
		}
		dst := filepath.Join(outDir, strings.ReplaceAll(strings.TrimPrefix(fname, "/"), "/", "__"))
		if err := os.WriteFile(dst, out, 0o644); err != nil {
			return nil, err
		}
		replace[fname] = dst
	}
	sort.Strings(rep.FailFuncs)
	return rep, nil
}

// RewriteGenerated rewrites the map-range statements of the generated file p_terraform.go inside an
// assembled converter-simulator module (package ./p of modDir) in place; the runtime functions
// (VerifSimKeys ...) are supplied by the harness. It returns the rewrite report.
func RewriteGenerated(modDir string) (*Report, error) {
	cfg := &packages.Config{
		Mode: packages.NeedName | packages.NeedFiles | packages.NeedCompiledGoFiles | packages.NeedSyntax |
			packages.NeedTypes | packages.NeedTypesInfo | packages.NeedImports | packages.NeedDeps,
		Dir: modDir,
		Env: pipeline.GoEnv(),
	}
	pkgs, err := packages.Load(cfg, "./p")
	if err != nil {
		return nil, &pipeline.BuildError{What: "go/packages load of the generated package failed", Out: err.Error()}
	}
	if len(pkgs) != 1 || len(pkgs[0].Errors) > 0 {
		var sb strings.Builder
		for _, p := range pkgs {
			for _, e := range p.Errors {
				sb.WriteString(e.Error() + "\n")
			}
		}
		return nil, &pipeline.BuildError{What: "generated package does not type-check", Out: sb.String()}
	}
	pkg := pkgs[0]
	// restrict the rewrite to the generated file
	keep := -1
	for i, f := range pkg.CompiledGoFiles {
		if filepath.Base(f) == "p_terraform.go" {
			keep = i
		}
	}
	if keep < 0 {
		return nil, &pipeline.BuildError{What: "p_terraform.go not found in the generated package"}
	}
	pkg.CompiledGoFiles = []string{pkg.CompiledGoFiles[keep]}
	pkg.Syntax = []*ast.File{pkg.Syntax[keep]}
	tmp, err := os.MkdirTemp("", "verif-rewrite-")
	if err != nil {
		return nil, err
	}
	defer os.RemoveAll(tmp)
	replace := map[string]string{}
	rep, err := rewritePackageOpt(pkg, tmp, replace, rtPrefix, false, false)
	if err != nil {
		return nil, err
	}
	for orig, repl := range replace {
		b, err := os.ReadFile(repl)
		if err != nil {
			return nil, err
		}
		if err := os.WriteFile(orig, b, 0o644); err != nil {
			return nil, err
		}
	}
	return rep, nil
}
