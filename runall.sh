#!/bin/bash
# ./runall.sh [quick|thorough]  — every claimed check, one summary line each; exit 0 iff all exit 0
cd "$(dirname "$0")" || exit 2
tier=${1:-quick}; rc=0
for p in C05 C06 C07 C08 C09 C14 C16 C18; do
  out=$(./run $p $tier 2>&1); e=$?
  echo "$p exit=$e $(echo "$out" | grep -E '^(histories|cases)=' | tail -1)"
  [ $e -ne 0 ] && { rc=1; echo "$out" | grep -E '^(violation|VIOLATION|verif: cannot)' | head -5 | cut -c1-400; }
done
exit $rc
