#!/bin/bash
# ./seedsweep.sh [from] [to] [tier]  — every claimed check under VERIF_SEED=from..to on the current tree; evidence goes
# to a scratch root, so the committed evidence is not touched. Prints only what needs attention.
cd "$(dirname "$0")" || exit 2
export GOFLAGS=-mod=mod GOPROXY=off GOSUMDB=off GOTOOLCHAIN=local
go build -o bin/verif ./cmd/verif || exit 2
from=${1:-1}; to=${2:-8}; tier=${3:-quick}; rc=0
out=$(mktemp -d /tmp/verif-sweep-XXXXXX)
for s in $(seq $from $to); do
  for p in C05 C06 C07 C08 C09 C14 C16 C18; do
    VERIF_SEED=$s VERIF_ROOT=$(pwd) VERIF_EVIDENCE_ROOT=$out ./bin/verif check $p $tier > $out/log 2>&1; e=$?
    if [ $e -ne 0 ]; then rc=1; echo "seed=$s $p exit=$e"; grep -E -A3 '^(violation|verif: cannot)' $out/log | head -12 | cut -c1-500; fi
  done
done
rm -rf "$out"
echo "sweep $from..$to $tier done rc=$rc"
exit $rc
