#!/bin/bash
# Sensitivity self-test: every patch under mutants/ (and seeded/[A-Z]*/patch.diff) is applied to a scratch
# worktree of /repo's HEAD; the tree must still build and pass the 41 baseline tests, and the check of
# the property named by the patch must report a violation. Results: evidence/selftest.json.
#   ./selftest.sh                 all patches
#   ./selftest.sh mutants/C09-*   selected patches
#   PROPS=all ./selftest.sh x.patch   run every claimed check against the patch (cross-detection table)
cd "$(dirname "$0")" || exit 2
export GOFLAGS=-mod=mod GOPROXY=off GOSUMDB=off GOTOOLCHAIN=local
[ -n "$SELFTEST_NOBUILD" ] || go build -o bin/verif ./cmd/verif || exit 2
ALL="C05 C06 C07 C08 C09 C14 C16 C18"
patches=("$@")
if [ ${#patches[@]} -eq 0 ]; then
  patches=(mutants/*.patch seeded/[A-Z]*/patch.diff)
fi
scratch=$(mktemp -d /tmp/verif-selftest-XXXXXX)
out=$scratch/out
mkdir -p "$out"
results=()
fail=0
for p in "${patches[@]}"; do
  [ -f "$p" ] || continue
  case "$p" in
    seeded/*) name=$(basename "$(dirname "$p")"); prop=$(python3 -c "import json,sys;print(json.load(open('$(dirname "$p")/meta.json'))['property'])") ;;
    *) name=$(basename "$p" .patch); prop=${name%%-*} ;;
  esac
  wt=$scratch/wt
  git -C /repo worktree add -q --detach "$wt" HEAD || exit 2
  if ! git -C "$wt" apply "$(realpath "$p")" 2>"$out/apply.err"; then
    echo "SELFTEST $name: patch does not apply: $(head -1 "$out/apply.err")"
    results+=("{\"mutant\":\"$name\",\"property\":\"$prop\",\"status\":\"patch-does-not-apply\"}")
    fail=1
    git -C /repo worktree remove --force "$wt"
    continue
  fi
  if ! (cd "$wt" && go build ./... && go test -vet=off -count=1 ./... >"$out/test.log" 2>&1); then
    echo "SELFTEST $name: does not build / baseline tests fail (not a valid mutant)"
    results+=("{\"mutant\":\"$name\",\"property\":\"$prop\",\"status\":\"invalid-baseline-fails\"}")
    fail=1
    git -C /repo worktree remove --force "$wt"
    continue
  fi
  props=$prop
  [ "$PROPS" = all ] && props=$ALL
  detected=""
  for q in $props; do
    VERIF_REPO=$wt VERIF_EVIDENCE_ROOT=$out ./bin/verif check "$q" quick >"$out/$name.$q.log" 2>&1
    rc=$?
    if [ $rc -eq 1 ] && grep -q "^VIOLATION property=$q " "$out/$name.$q.log"; then
      detected="$detected $q"
    elif [ $rc -eq 2 ]; then
      detected="$detected $q:exit2"
    fi
  done
  sig=$(grep -h -m1 "^violation" "$out/$name.$prop.log" 2>/dev/null | cut -c1-200 | tr -d '"\\')
  if echo " $detected " | grep -q " $prop "; then
    echo "SELFTEST $name: detected by:$detected   [$sig]"
    results+=("{\"mutant\":\"$name\",\"property\":\"$prop\",\"status\":\"detected\",\"detected_by\":\"${detected# }\",\"first\":\"$sig\"}")
  else
    echo "SELFTEST $name: MISSED by $prop (detected by:${detected:- none})"
    results+=("{\"mutant\":\"$name\",\"property\":\"$prop\",\"status\":\"missed\",\"detected_by\":\"${detected# }\"}")
    fail=1
    cp "$out/$name.$prop.log" "/tmp/selftest-missed-$name.log" 2>/dev/null
  fi
  git -C /repo worktree remove --force "$wt"
done
mkdir -p evidence
json=${SELFTEST_JSON:-evidence/selftest.json}
{
  echo '{"selftest":"sensitivity","repo_head":"'"$(git -C /repo rev-parse --short HEAD)"'","results":['
  (IFS=,; echo "${results[*]}")
  echo ']}'
} > "$json"
rm -rf "$scratch"
git -C /repo worktree prune
exit $fail
