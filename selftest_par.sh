#!/bin/bash
# Parallel front end of selftest.sh: splits the patches over N workers (default 4), merges the results
# into evidence/selftest.json.   ./selftest_par.sh [N] [patches...]   (SELFTEST_MERGE=1 keeps the recorded
# results of patches that are not part of this run)
cd "$(dirname "$0")" || exit 2
export GOFLAGS=-mod=mod GOPROXY=off GOSUMDB=off GOTOOLCHAIN=local
n=${1:-4}
shift
go build -o bin/verif ./cmd/verif || exit 2
patches=("$@")
if [ ${#patches[@]} -eq 0 ]; then
  patches=(mutants/*.patch seeded/[A-Z]*/patch.diff)
fi
tmp=$(mktemp -d /tmp/verif-selftest-par-XXXXXX)
pids=()
for ((w = 0; w < n; w++)); do
  mine=()
  for ((i = w; i < ${#patches[@]}; i += n)); do mine+=("${patches[$i]}"); done
  [ ${#mine[@]} -eq 0 ] && continue
  SELFTEST_NOBUILD=1 SELFTEST_JSON=$tmp/part$w.json ./selftest.sh "${mine[@]}" >"$tmp/out$w.log" 2>&1 &
  pids+=($!)
done
fail=0
for p in "${pids[@]}"; do wait "$p" || fail=1; done
cat "$tmp"/out*.log | grep "^SELFTEST" | sort
python3 - "$tmp" <<'PY'
import json, glob, sys, subprocess
res = []
for f in sorted(glob.glob(sys.argv[1] + "/part*.json")):
    res += json.load(open(f))["results"]
import os
if os.environ.get("SELFTEST_MERGE") and os.path.exists("evidence/selftest.json"):
    # keep the entries of an earlier run for patches this run did not touch
    mine = {r["mutant"] for r in res}
    try:
        res += [r for r in json.load(open("evidence/selftest.json"))["results"] if r["mutant"] not in mine]
    except Exception:
        pass
res.sort(key=lambda r: r["mutant"])
head = subprocess.run(["git", "-C", "/repo", "rev-parse", "--short", "HEAD"], capture_output=True, text=True).stdout.strip()
json.dump({"selftest": "sensitivity", "repo_head": head, "results": res}, open("evidence/selftest.json", "w"), indent=0)
d = sum(1 for r in res if r["status"] == "detected")
print(f"selftest: {d}/{len(res)} detected")
PY
rm -rf "$tmp"
exit $fail
