#!/bin/sh
# Offline build of the verification tool (MANIFEST.setup_cmd). Everything else is rebuilt by each check.
set -e
cd "$(dirname "$0")"
export GOFLAGS=-mod=mod GOPROXY=off GOSUMDB=off GOTOOLCHAIN=local
mkdir -p bin evidence/replay
go build -o bin/verif ./cmd/verif
echo "setup ok"
