package spec

import (
	"encoding/json"
	"fmt"
	"sort"
	"strings"
)

// SchemaType mirrors the documented time_type / duration_type / schema_types entry.
type SchemaType struct {
	Type            string `json:"type,omitempty"`
	ValueType       string `json:"value_type,omitempty"`
	CastToType      string `json:"cast_to_type,omitempty"`
	CastFromType    string `json:"cast_from_type,omitempty"`
	TypeConstructor string `json:"type_constructor,omitempty"`
}

// Injected mirrors one injected_fields entry.
type Injected struct {
	Name          string   `json:"name"`
	Type          string   `json:"type"`
	Required      bool     `json:"required,omitempty"`
	Computed      bool     `json:"computed,omitempty"`
	Optional      bool     `json:"optional,omitempty"`
	PlanModifiers []string `json:"plan_modifiers,omitempty"`
	Validators    []string `json:"validators,omitempty"`
}

// Config is the logical plugin configuration (README option names are the public interface).
type Config struct {
	Types                       []string              `json:"types,omitempty"`
	ExcludeFields               []string              `json:"exclude_fields,omitempty"`
	ComputedFields              []string              `json:"computed_fields,omitempty"`
	RequiredFields              []string              `json:"required_fields,omitempty"`
	SensitiveFields             []string              `json:"sensitive_fields,omitempty"`
	DefaultPackageName          string                `json:"default_package_name,omitempty"`
	TargetPackageName           string                `json:"target_package_name,omitempty"`
	DurationCustomType          string                `json:"duration_custom_type,omitempty"`
	Sort                        bool                  `json:"sort,omitempty"`
	UseStateForUnknownByDefault bool                  `json:"use_state_for_unknown_by_default,omitempty"`
	Suffixes                    map[string]string     `json:"suffixes,omitempty"`
	NameOverrides               map[string]string     `json:"name_overrides,omitempty"`
	Validators                  map[string][]string   `json:"validators,omitempty"`
	PlanModifiers               map[string][]string   `json:"plan_modifiers,omitempty"`
	SchemaTypes                 map[string]SchemaType `json:"schema_types,omitempty"`
	TimeType                    *SchemaType           `json:"time_type,omitempty"`
	DurationType                *SchemaType           `json:"duration_type,omitempty"`
	InjectedFields              map[string][]Injected `json:"injected_fields,omitempty"`
	ImportPathOverrides         map[string]string     `json:"import_path_overrides,omitempty"`
	CustomTypes                 map[string]string     `json:"custom_types,omitempty"`
	// FlowLists is not an option of the plugin: it makes Render write the list options in YAML flow style
	// (`key: ["a", "b"]`, everything on one line) instead of block style.
	FlowLists bool `json:"flow_lists,omitempty"`
}

// Clone deep-copies a config.
func (c Config) Clone() Config {
	b, _ := json.Marshal(c)
	var r Config
	_ = json.Unmarshal(b, &r)
	return r
}

// Channel says where a dual-channel option is delivered.
type Channel int

const (
	ChYAML Channel = iota
	ChCLI
	ChBoth
	ChNone // option omitted on both channels (used by fault cases)
)

// DualOptions are the options expressible on both channels: logical name -> (yaml key, cli key).
// These key names are the public interface of the plugin at the pinned commit (README + --help text).
var DualOptions = []struct{ Name, YAML, CLI string }{
	{"types", "types", "types"},
	{"exclude_fields", "exclude_fields", "exclude_fields"},
	{"computed_fields", "computed_fields", "computed_fields"},
	{"required_fields", "required_fields", "required_fields"},
	{"sensitive_fields", "sensitive_fields", "sensitive"},
	{"default_package_name", "default_package_name", "default_package_name"},
	{"target_package_name", "target_package_name", "target_package_name"},
	{"duration_custom_type", "duration_custom_type", "custom_duration"},
	{"sort", "sort", "sort"},
}

// Order decides serialisation order: given the number of items at a named site it returns a
// permutation of 0..n-1. nil means identity.
type Order func(site string, n int) []int

func (o Order) perm(site string, n int) []int {
	if o != nil {
		if p := o(site, n); len(p) == n {
			return p
		}
	}
	p := make([]int, n)
	for i := range p {
		p[i] = i
	}
	return p
}

func permuteStrings(o Order, site string, in []string) []string {
	p := o.perm(site, len(in))
	out := make([]string, len(in))
	for i, j := range p {
		out[i] = in[j]
	}
	return out
}

func sortedKeys[V any](m map[string]V) []string {
	k := make([]string, 0, len(m))
	for s := range m {
		k = append(k, s)
	}
	sort.Strings(k)
	return k
}

func q(s string) string {
	b, _ := json.Marshal(s)
	return string(b)
}

// Rendered is a configuration as the plugin receives it.
type Rendered struct {
	YAML   string   // "" means no config file
	Params []string // k=v parameters, without config=
}

// ParamString joins the parameters (and the config path, if any) the way protoc would pass them.
func (r Rendered) ParamString(configPath string) string {
	ps := append([]string{}, r.Params...)
	if configPath != "" {
		ps = append([]string{"config=" + configPath}, ps...)
	}
	return strings.Join(ps, ",")
}

// DualValue returns the value of a dual-channel option (list or scalar form) and whether it is set.
func (c Config) DualValue(name string) (list []string, str string, isList bool, set bool) {
	return c.dualValue(name)
}

func (c Config) dualValue(name string) (list []string, str string, isList bool, set bool) {
	switch name {
	case "types":
		return c.Types, "", true, len(c.Types) > 0
	case "exclude_fields":
		return c.ExcludeFields, "", true, len(c.ExcludeFields) > 0
	case "computed_fields":
		return c.ComputedFields, "", true, len(c.ComputedFields) > 0
	case "required_fields":
		return c.RequiredFields, "", true, len(c.RequiredFields) > 0
	case "sensitive_fields":
		return c.SensitiveFields, "", true, len(c.SensitiveFields) > 0
	case "default_package_name":
		return nil, c.DefaultPackageName, false, c.DefaultPackageName != ""
	case "target_package_name":
		return nil, c.TargetPackageName, false, c.TargetPackageName != ""
	case "duration_custom_type":
		return nil, c.DurationCustomType, false, c.DurationCustomType != ""
	case "sort":
		if c.Sort {
			return nil, "true", false, true
		}
		return nil, "false", false, false
	}
	panic("unknown dual option " + name)
}

// Render serialises the configuration. split maps a dual option name to its channel (default YAML);
// order decides every serialisation order. YAML-only options always go to the YAML text.
func (c Config) Render(split map[string]Channel, order Order) Rendered {
	type section struct {
		key  string
		body []string // lines, already indented relative to the key
		flow string   // inline value
	}
	var secs []section
	var params []string

	for _, d := range DualOptions {
		list, str, isList, set := c.dualValue(d.Name)
		if !set {
			continue
		}
		ch := split[d.Name]
		if ch == ChNone {
			continue
		}
		if ch == ChYAML || ch == ChBoth {
			if isList && c.FlowLists {
				var items []string
				for _, s := range permuteStrings(order, "yaml:"+d.YAML, list) {
					items = append(items, q(s))
				}
				secs = append(secs, section{key: d.YAML, flow: "[" + strings.Join(items, ", ") + "]"})
			} else if isList {
				var body []string
				for _, s := range permuteStrings(order, "yaml:"+d.YAML, list) {
					body = append(body, "  - "+q(s))
				}
				secs = append(secs, section{key: d.YAML, body: body})
			} else if d.Name == "sort" {
				secs = append(secs, section{key: d.YAML, flow: str})
			} else {
				secs = append(secs, section{key: d.YAML, flow: q(str)})
			}
		}
		if ch == ChCLI || ch == ChBoth {
			if isList {
				params = append(params, d.CLI+"="+strings.Join(permuteStrings(order, "cli:"+d.CLI, list), "+"))
			} else {
				params = append(params, d.CLI+"="+str)
			}
		}
	}

	if c.UseStateForUnknownByDefault {
		secs = append(secs, section{key: "use_state_for_unknown_by_default", flow: "true"})
	}
	strMap := func(key string, m map[string]string) {
		if len(m) == 0 {
			return
		}
		var body []string
		for _, k := range permuteStrings(order, "yaml:"+key, sortedKeys(m)) {
			body = append(body, "  "+q(k)+": "+q(m[k]))
		}
		secs = append(secs, section{key: key, body: body})
	}
	listMap := func(key string, m map[string][]string) {
		if len(m) == 0 {
			return
		}
		var body []string
		for _, k := range permuteStrings(order, "yaml:"+key, sortedKeys(m)) {
			body = append(body, "  "+q(k)+":")
			for _, v := range m[k] { // order of validators / plan modifiers is significant: never permuted
				body = append(body, "    - "+q(v))
			}
		}
		secs = append(secs, section{key: key, body: body})
	}
	stLines := func(indent string, st SchemaType, site string) []string {
		type kv struct{ k, v string }
		var kvs []kv
		for _, e := range []kv{{"type", st.Type}, {"value_type", st.ValueType}, {"cast_to_type", st.CastToType},
			{"cast_from_type", st.CastFromType}, {"type_constructor", st.TypeConstructor}} {
			if e.v != "" {
				kvs = append(kvs, e)
			}
		}
		var out []string
		for _, i := range order.perm(site, len(kvs)) {
			out = append(out, indent+kvs[i].k+": "+q(kvs[i].v))
		}
		return out
	}
	strMap("suffixes", c.Suffixes)
	strMap("name_overrides", c.NameOverrides)
	listMap("validators", c.Validators)
	listMap("plan_modifiers", c.PlanModifiers)
	if len(c.SchemaTypes) > 0 {
		var body []string
		for _, k := range permuteStrings(order, "yaml:schema_types", sortedKeys(c.SchemaTypes)) {
			body = append(body, "  "+q(k)+":")
			body = append(body, stLines("    ", c.SchemaTypes[k], "yaml:schema_types/"+k)...)
		}
		secs = append(secs, section{key: "schema_types", body: body})
	}
	if c.TimeType != nil {
		secs = append(secs, section{key: "time_type", body: stLines("  ", *c.TimeType, "yaml:time_type")})
	}
	if c.DurationType != nil {
		secs = append(secs, section{key: "duration_type", body: stLines("  ", *c.DurationType, "yaml:duration_type")})
	}
	if len(c.InjectedFields) > 0 {
		var body []string
		for _, k := range permuteStrings(order, "yaml:injected_fields", sortedKeys(c.InjectedFields)) {
			body = append(body, "  "+q(k)+":")
			inj := c.InjectedFields[k]
			for _, i := range order.perm("yaml:injected_fields/"+k, len(inj)) {
				f := inj[i]
				lines := []string{"name: " + q(f.Name), "type: " + q(f.Type)}
				if f.Required {
					lines = append(lines, "required: true")
				}
				if f.Computed {
					lines = append(lines, "computed: true")
				}
				if f.Optional {
					lines = append(lines, "optional: true")
				}
				if len(f.PlanModifiers) > 0 {
					l := "plan_modifiers: ["
					for j, v := range f.PlanModifiers {
						if j > 0 {
							l += ", "
						}
						l += q(v)
					}
					lines = append(lines, l+"]")
				}
				if len(f.Validators) > 0 {
					l := "validators: ["
					for j, v := range f.Validators {
						if j > 0 {
							l += ", "
						}
						l += q(v)
					}
					lines = append(lines, l+"]")
				}
				pl := order.perm(fmt.Sprintf("yaml:injected_fields/%s/%d", k, i), len(lines))
				for n, j := range pl {
					if n == 0 {
						body = append(body, "    - "+lines[j])
					} else {
						body = append(body, "      "+lines[j])
					}
				}
			}
		}
		secs = append(secs, section{key: "injected_fields", body: body})
	}
	strMap("import_path_overrides", c.ImportPathOverrides)
	strMap("custom_types", c.CustomTypes)

	var r Rendered
	if len(secs) > 0 {
		var b strings.Builder
		b.WriteString("---\n")
		for _, i := range order.perm("yaml:top", len(secs)) {
			s := secs[i]
			if s.flow != "" {
				b.WriteString(s.key + ": " + s.flow + "\n")
				continue
			}
			b.WriteString(s.key + ":\n")
			for _, l := range s.body {
				b.WriteString(l + "\n")
			}
		}
		r.YAML = b.String()
	}
	r.Params = permuteStrings(order, "cli:params", params)
	return r
}
