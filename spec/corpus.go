package spec

// The curated corpus (DESIGN.md Appendix B): one proto file whose root messages cover every row of
// the D table and the compositions that matter. Built in Go so that it cannot drift from the types.

type fopt func(*Field)

func fld(name string, num int32, kind string, opts ...fopt) Field {
	f := Field{Name: name, Num: num, Kind: kind}
	if kind == KMessage || kind == KTime || kind == KDuration {
		f.Nullable = true
	}
	for _, o := range opts {
		o(&f)
	}
	return f
}

func ref(n string) fopt     { return func(f *Field) { f.Ref = n } }
func list() fopt            { return func(f *Field) { f.Card = CardList } }
func mapOf() fopt           { return func(f *Field) { f.Card = CardMap } }
func nonNull() fopt         { return func(f *Field) { f.Nullable = false } }
func embed() fopt           { return func(f *Field) { f.Embed = true } }
func cast(t string) fopt    { return func(f *Field) { f.Cast = t } }
func jsonTag(t string) fopt { return func(f *Field) { f.JSON = t } }
func oneof(g string) fopt   { return func(f *Field) { f.Oneof = g } }

// Harness-supplied lossless attribute types (DESIGN.md §3, D_conv).
var (
	SimTimeType     = &SchemaType{Type: "SimTimeType", ValueType: "SimTimeValue", CastToType: "time.Time", CastFromType: "time.Time"}
	SimDurationType = &SchemaType{Type: "SimDurationType", ValueType: "SimDurationValue", CastToType: "time.Duration", CastFromType: "time.Duration"}
)

// SimInt32Override is a schema_types entry backed by the harness type SimInt32Type.
var SimInt32Override = SchemaType{Type: "SimInt32Type", ValueType: "SimInt32Value", CastToType: "int32", CastFromType: "int32"}

// Corpus returns the quick-tier program.
func Corpus() *Program {
	p := &Program{File: "p.proto", Package: "p"}
	p.Enums = []Enum{
		{Name: "Mode", Values: []string{"MODE_UNKNOWN", "MODE_ON", "MODE_OFF"}},
		{Name: "Color", Values: []string{"COLOR_NONE", "COLOR_RED", "COLOR_BLUE", "COLOR_GREEN"}},
		{Name: "Power", Values: []string{"OFF", "ON", "STANDBY"}}, // a zero constant with a "real" name
	}
	msg := func(name string, oneofs []string, fs ...Field) {
		p.Messages = append(p.Messages, Message{Name: name, Fields: fs, Oneofs: oneofs})
	}

	msg("Leaf", nil,
		fld("Str", 1, KString), fld("Num", 2, KInt32), fld("Flag", 3, KBool))
	msg("Empty", nil)
	msg("WithOneof", []string{"Var"},
		fld("Label", 1, KString),
		fld("VarS", 2, KString, oneof("Var")), fld("VarI", 3, KInt64, oneof("Var")),
		fld("VarM", 4, KMessage, ref("Leaf"), oneof("Var")),
		fld("VarP", 5, KEnum, ref("Power"), oneof("Var")))
	msg("Mid", []string{"Choice"},
		fld("Name", 1, KString),
		fld("Leaf", 2, KMessage, ref("Leaf")),
		fld("LeafV", 3, KMessage, ref("Leaf"), nonNull()),
		fld("Tags", 4, KString, list()),
		fld("Attrs", 5, KString, mapOf()),
		fld("Leaves", 6, KMessage, ref("Leaf"), list()),
		fld("LeafMap", 7, KMessage, ref("Leaf"), mapOf(), nonNull()),
		fld("ChoiceA", 8, KString, oneof("Choice")),
		fld("ChoiceB", 9, KMessage, ref("Leaf"), oneof("Choice")))

	msg("Scalars", nil,
		fld("FDouble", 1, KDouble), fld("FFloat", 2, KFloat), fld("FInt32", 3, KInt32), fld("FInt64", 4, KInt64),
		fld("FUint32", 5, KUint32), fld("FUint64", 6, KUint64), fld("FSint32", 7, KSint32), fld("FSint64", 8, KSint64),
		fld("FFixed32", 9, KFixed32), fld("FFixed64", 10, KFixed64), fld("FSfixed32", 11, KSfixed32), fld("FSfixed64", 12, KSfixed64),
		fld("FBool", 13, KBool), fld("FString", 14, KString), fld("FBytes", 15, KBytes),
		fld("FEnum", 16, KEnum, ref("Mode")), fld("FPower", 19, KEnum, ref("Power")),
		fld("FCastS", 17, KString, cast("MyString")), fld("FCastI", 18, KInt32, cast("MyInt")))

	msg("Temporal", nil,
		fld("TimeV", 1, KTime, nonNull()), fld("TimeP", 2, KTime),
		fld("DurV", 3, KDuration, nonNull()), fld("DurP", 4, KDuration),
		fld("DurC", 5, KInt64, cast(DurationCastName)),
		fld("Times", 6, KTime, list(), nonNull()), fld("Durs", 7, KDuration, list(), nonNull()),
		fld("DurCs", 8, KInt64, list(), cast(DurationCastName)),
		fld("TimesP", 9, KTime, list()), fld("DursP", 10, KDuration, list()))

	msg("Collections", nil,
		fld("Strs", 1, KString, list()), fld("Blobs", 2, KBytes, list()), fld("Ints", 3, KInt64, list()),
		fld("Flags", 4, KBool, list()), fld("Modes", 5, KEnum, ref("Mode"), list()),
		fld("Floats", 6, KFloat, list()),
		fld("MapStr", 7, KString, mapOf()), fld("MapInt", 8, KInt32, mapOf()), fld("MapBool", 9, KBool, mapOf()),
		fld("MapMode", 10, KEnum, ref("Color"), mapOf()),
		fld("CastStrs", 12, KString, list(), cast("MyString")),
		fld("MapTime", 14, KTime, mapOf(), nonNull()), fld("MapDur", 15, KDuration, mapOf(), nonNull()),
		fld("MapTimeP", 16, KTime, mapOf()), fld("MapDurP", 17, KDuration, mapOf()))

	msg("Nesting", nil,
		fld("Ptr", 1, KMessage, ref("Mid")), fld("Val", 2, KMessage, ref("Mid"), nonNull()),
		fld("PtrList", 3, KMessage, ref("Mid"), list()), fld("ValList", 4, KMessage, ref("Mid"), list(), nonNull()),
		fld("PtrMap", 5, KMessage, ref("Mid"), mapOf()), fld("ValMap", 6, KMessage, ref("Mid"), mapOf(), nonNull()))

	msg("Oneofs", []string{"Choice", "lower_pick"},
		fld("Plain", 1, KString),
		fld("ChA", 2, KString, oneof("Choice")), fld("ChB", 3, KInt32, oneof("Choice")),
		fld("ChC", 4, KEnum, ref("Mode"), oneof("Choice")), fld("ChD", 5, KMessage, ref("Leaf"), oneof("Choice")),
		fld("ChE", 6, KMessage, ref("Empty"), oneof("Choice")),
		fld("ChF", 11, KEnum, ref("Power"), oneof("Choice")), fld("ChG", 12, KEnum, ref("Color"), oneof("Choice")),
		fld("ChT", 16, KTime, oneof("Choice")), fld("ChU", 17, KDuration, oneof("Choice")),
		fld("ChH", 13, KBool, oneof("Choice")), fld("ChI", 14, KDouble, oneof("Choice")), fld("ChJ", 15, KBytes, oneof("Choice")),
		fld("pick_s", 7, KString, oneof("lower_pick")), fld("pick_l", 8, KMessage, ref("Leaf"), oneof("lower_pick")),
		fld("Items", 9, KMessage, ref("WithOneof"), list()),
		fld("ByKey", 10, KMessage, ref("WithOneof"), mapOf(), nonNull()))

	// two oneof groups whose branches interleave with each other and with plain fields once sorted by name
	msg("Interleave", []string{"DataSource", "Source", "target", "my_target"},
		fld("AFile", 1, KString, oneof("Source")), fld("BGroup", 2, KString, oneof("target")),
		fld("CInline", 3, KInt64, oneof("Source")), fld("DHost", 4, KMessage, ref("Leaf"), oneof("target")),
		fld("BPlain", 5, KString), fld("EOther", 6, KBool, oneof("Source")), fld("AaList", 7, KString, list()),
		// groups declared before / after a group whose name is a suffix of theirs
		fld("DsA", 8, KString, oneof("DataSource")), fld("DsB", 9, KMessage, ref("Leaf"), oneof("DataSource")),
		fld("MtA", 10, KInt64, oneof("my_target")), fld("MtB", 11, KString, oneof("my_target")))
	msg("EmbV", nil,
		fld("EvStr", 1, KString), fld("EvNum", 2, KInt64), fld("EvLeaf", 3, KMessage, ref("Leaf")),
		fld("EvTags", 4, KString, list()))
	msg("EmbIn", nil, fld("EiA", 1, KString), fld("EiB", 2, KInt64), fld("EiHidden", 3, KString))
	msg("EmbP", nil,
		fld("EpStr", 1, KString), fld("EpNum", 2, KInt32), fld("EpFlag", 3, KBool),
		fld("EpHidden", 4, KString), // excluded: a field of a nullable embedded message the schema does not describe
		fld("EpTime", 5, KTime), fld("EpDur", 6, KDuration), fld("EpTimeV", 7, KTime, nonNull()), fld("EpBytes", 8, KBytes),
		// a by-value embedded message inside the nullable embedded one (its fields are promoted twice)
		fld("EmbIn", 9, KMessage, ref("EmbIn"), embed(), nonNull()))
	// embedded messages inside list elements and map values; three levels of nesting
	msg("WithEmbed", nil,
		fld("WeStr", 1, KString),
		fld("EmbV", 2, KMessage, ref("EmbV"), embed(), nonNull()),
		fld("EmbP", 3, KMessage, ref("EmbP"), embed()))
	msg("Outer", []string{"Which"},
		fld("Inner", 1, KMessage, ref("Mid")), fld("Inners", 2, KMessage, ref("Mid"), list()),
		fld("ByKey", 3, KMessage, ref("Mid"), mapOf(), nonNull()),
		fld("WhichMid", 4, KMessage, ref("Mid"), oneof("Which")), fld("WhichNum", 5, KUint64, oneof("Which")))
	msg("DeepNest", nil,
		fld("Label", 1, KString, jsonTag("label_json,omitempty")),
		fld("Out", 2, KMessage, ref("Outer")), fld("OutV", 3, KMessage, ref("Outer"), nonNull()),
		fld("EmbList", 4, KMessage, ref("WithEmbed"), list()), fld("EmbMap", 5, KMessage, ref("WithEmbed"), mapOf()),
		fld("EmbOne", 6, KMessage, ref("WithEmbed"), nonNull()))
	msg("Embedding", nil,
		fld("Own", 1, KString),
		fld("EpKey", 4, KString), fld("EvMiddle", 5, KInt64), // sort between the fields promoted from EmbP / EmbV when sort is on
		fld("EmbV", 2, KMessage, ref("EmbV"), embed(), nonNull()),
		fld("EmbP", 3, KMessage, ref("EmbP"), embed()))

	msg("EmbO", []string{"EvChoice", "ev_second"},
		fld("EoStr", 1, KString), fld("EoHidden", 6, KString), // EoHidden is excluded
		fld("EvA", 2, KString, oneof("EvChoice")), fld("EvB", 3, KInt32, oneof("EvChoice")),
		fld("EwA", 4, KString, oneof("ev_second")), fld("EwB", 5, KBool, oneof("ev_second")))
	msg("EmbO2", []string{"ExChoice"},
		fld("ExA", 1, KInt64, oneof("ExChoice")), fld("ExB", 2, KMessage, ref("Leaf"), oneof("ExChoice")))
	// three oneof groups promoted from two by-value embedded messages
	msg("EmbedOneof", []string{"MyExChoiceToo"},
		fld("Top", 1, KString),
		// a oneof of the host whose name contains the name of a oneof promoted from an embedded message
		fld("HostA", 5, KString, oneof("MyExChoiceToo")), fld("HostB", 6, KInt64, oneof("MyExChoiceToo")),
		fld("EvAMid", 3, KString), // sorts between the promoted branches EvA and EvB when sort is on
		fld("EmbO", 2, KMessage, ref("EmbO"), embed(), nonNull()),
		fld("EmbO2", 4, KMessage, ref("EmbO2"), embed(), nonNull()))

	// a oneof promoted through two levels of by-value embedding
	msg("EmbMid", nil,
		fld("EmStr", 1, KString),
		fld("EmbO2", 2, KMessage, ref("EmbO2"), embed(), nonNull()),
		fld("EmNum", 3, KInt32))
	msg("EmbedTwo", nil,
		fld("TwoTop", 1, KString),
		fld("EmbMid", 2, KMessage, ref("EmbMid"), embed(), nonNull()),
		fld("TwoList", 3, KString, list()))
	msg("EmbD", nil,
		fld("EdStr", 1, KString), fld("EdList", 2, KString, list()), fld("EdLeaf", 3, KMessage, ref("Leaf")),
		fld("EdMap", 4, KString, mapOf()), fld("EdByKey", 5, KMessage, ref("Leaf"), mapOf()))
	msg("EmbDb", nil,
		fld("EdbStr", 1, KString), fld("EdbList", 2, KInt64, list()), fld("EdbMid", 3, KMessage, ref("Mid")), fld("EdbMap", 4, KString, mapOf()))
	msg("EmbDc", nil,
		fld("EdcList", 1, KMessage, ref("Leaf"), list()))
	msg("EmbedDeep", nil,
		fld("Top", 1, KString),
		fld("EmbD", 2, KMessage, ref("EmbD"), embed()),
		fld("EmbDb", 3, KMessage, ref("EmbDb"), embed()),
		fld("EmbDc", 4, KMessage, ref("EmbDc"), embed()))

	msg("NamedLeaf", nil,
		fld("Shown", 1, KString), fld("Hidden", 2, KString), fld("Skip", 3, KInt32))
	msg("Naming", nil,
		fld("first_name", 1, KString), fld("item_count", 2, KInt32),
		fld("inner_leaf", 3, KMessage, ref("Leaf")),
		fld("Tagged", 4, KString, jsonTag("tagged_x,omitempty")),
		fld("Overridden", 5, KString),
		fld("Secret", 6, KString),
		fld("SecretList", 7, KString, list()),
		fld("One", 8, KMessage, ref("NamedLeaf")),
		fld("Other", 9, KMessage, ref("NamedLeaf"), nonNull()),
		fld("str_list", 10, KString, list()),
		fld("Dashed", 11, KInt64, jsonTag("-")), fld("DashedOmit", 12, KString, jsonTag("-,omitempty")), fld("DashLeaf", 13, KMessage, ref("Leaf"), jsonTag("dash-leaf")),
		// renamed attributes whose default name is the name of a sibling: Kind -> "type", SubKind -> "kind"
		// (a sibling called like the default name of the *overridden* field would be a duplicate attribute in
		// every configuration that lacks the override: not a legal program)
		fld("Kind", 14, KString, jsonTag("type")), fld("SubKind", 15, KString, jsonTag("kind")),
		fld("KindLeaf", 17, KMessage, ref("Leaf"), jsonTag("sub_leaf")), fld("SubLeaf", 18, KMessage, ref("Mid"), jsonTag("kind_leaf")),
		fld("NShared", 19, KMessage, ref("SharedBad")), fld("NSharedList", 20, KMessage, ref("SharedBad"), list()))

	// attribute names that coincide with names the generated code uses internally (map entry fields,
	// the placeholder, container members), next to maps and lists of messages
	msg("CollideS", nil,
		fld("value", 1, KString), fld("tags", 2, KString, mapOf()), fld("key", 3, KInt64), fld("counts", 4, KInt64, mapOf()),
		fld("elems", 5, KString, list()))
	msg("Collide", nil,
		fld("scalars", 10, KMessage, ref("CollideS")), fld("scalar_list", 11, KMessage, ref("CollideS"), list()),
		fld("entries", 1, KMessage, ref("Mid"), mapOf()),
		fld("value", 2, KMessage, ref("Mid")),
		fld("key", 3, KString),
		fld("active", 4, KBool),
		fld("by_name", 5, KMessage, ref("Leaf"), mapOf(), nonNull()),
		fld("elems", 6, KMessage, ref("Leaf"), list()),
		fld("attrs", 7, KString, mapOf()),
		fld("unknown", 8, KBool), fld("null", 9, KString))

	// oneof groups with a single branch (message, field-less message, scalar), also promoted from a
	// by-value embedded message
	msg("EmbSingle", []string{"OnlyEmb"},
		fld("EsStr", 1, KString), fld("EsOnly", 2, KMessage, ref("Leaf"), oneof("OnlyEmb")))
	msg("Singles", []string{"OnlyMsg", "only_empty", "OnlyStr"},
		fld("SLabel", 1, KString),
		fld("SMsg", 2, KMessage, ref("Mid"), oneof("OnlyMsg")),
		fld("SEmpty", 3, KMessage, ref("Empty"), oneof("only_empty")),
		fld("SStr", 4, KString, oneof("OnlyStr")),
		fld("EmbSingle", 5, KMessage, ref("EmbSingle"), embed(), nonNull()),
		fld("SItems", 6, KMessage, ref("EmbSingle"), list()))

	msg("Empties", []string{"Pick"},
		fld("Label", 1, KString),
		fld("E", 2, KMessage, ref("Empty")), fld("EV", 3, KMessage, ref("Empty"), nonNull(), jsonTag("ev")),
		fld("PickE", 6, KMessage, ref("Empty"), oneof("Pick")), fld("PickS", 7, KString, oneof("Pick")))

	msg("Sink", []string{"Kind"},
		fld("Name", 1, KString), fld("Count", 2, KInt64), fld("Ratio", 3, KDouble), fld("On", 4, KBool),
		fld("Mode", 5, KEnum, ref("Mode")), fld("Data", 6, KBytes),
		fld("Created", 7, KTime, nonNull()), fld("Expires", 8, KTime), fld("TTL", 9, KInt64, cast(DurationCastName), jsonTag("ttl")),
		fld("Grace", 10, KDuration),
		fld("Labels", 11, KString, mapOf()), fld("Names", 12, KString, list()),
		fld("Spec", 13, KMessage, ref("Mid")), fld("Status", 14, KMessage, ref("Leaf"), nonNull()),
		fld("Parts", 15, KMessage, ref("Mid"), list()), fld("Index", 16, KMessage, ref("Leaf"), mapOf()),
		fld("KindS", 17, KString, oneof("Kind")), fld("KindM", 18, KMessage, ref("Leaf"), oneof("Kind")),
		fld("EmbP", 19, KMessage, ref("EmbP"), embed()))

	// requested first, cannot be mapped (integer map key, met after the nested messages were built)
	// a shared message with a field that cannot be mapped: the types that use it validly exclude that field
	// by path, Broken does not
	msg("SharedBad", nil,
		fld("SbStr", 1, KString), fld("SbNum", 2, KInt64),
		Field{Name: "SbBad", Num: 3, Kind: KString, Card: CardMap, MapKey: KInt32})
	msg("Broken", nil,
		fld("BrShared", 7, KMessage, ref("SharedBad")),
		fld("BrName", 1, KString), fld("BrMid", 2, KMessage, ref("Mid")), fld("BrLeaves", 3, KMessage, ref("Leaf"), list()),
		fld("BrOuter", 4, KMessage, ref("Outer"), nonNull()), fld("BrEmb", 5, KMessage, ref("WithEmbed")),
		Field{Name: "BrBad", Num: 6, Kind: KString, Card: CardMap, MapKey: KInt32})
	p.Unbuildable = []string{"Broken"}
	// the plugin builds the selected types in declaration order: Broken is declared first
	{
		var front, rest []Message
		for _, m := range p.Messages {
			if m.Name == "Broken" {
				front = append(front, m)
			} else {
				rest = append(rest, m)
			}
		}
		p.Messages = append(front, rest...)
	}
	p.Config = Config{
		Types: []string{"Scalars", "Temporal", "Collections", "Nesting", "Oneofs", "Embedding", "EmbedOneof",
			"EmbedDeep", "Naming", "Empties", "Sink", "DeepNest", "Interleave", "Collide", "Singles",
			"Leaf", "Mid", "WithOneof", "EmbedTwo"}, // selected types that also occur nested inside other selected types
		DurationCustomType: DurationCastName,
		TimeType:           SimTimeType,
		DurationType:       SimDurationType,
		ExcludeFields: []string{"Naming.Secret", "Naming.SecretList", "NamedLeaf.Hidden", "Naming.Other.Skip", "EmbP.EpHidden", "EmbIn.EiHidden", "EmbO.EoHidden", "Nesting.PtrList.Attrs", "DeepNest.Out.ByKey.LeafMap", "Naming.NShared.SbBad", "Naming.NSharedList.SbBad",
			"Oneofs.ChC", "WithOneof.VarI", "Interleave.CInline"}, // branches of oneof groups that keep other branches in the schema,
		ComputedFields: []string{"Scalars.FString", "Sink.Count", "Leaf.Num", "Sink.Spec.Name", "Oneofs.ChI", "Oneofs.pick_l", "Mid.ChoiceB", "Empties.PickE",
			"Interleave.BGroup", "Interleave.DHost", "EmbO.EwA", "EmbO.EwB", "Oneofs.pick_s",
			"Collections.Strs", "Collections.MapStr", "Collections.MapTimeP", "Nesting.PtrList", "Nesting.ValMap", "Sink.Labels", "Sink.Parts", "Mid.Tags", "Mid.LeafMap"}, // incl. every branch of three oneof groups
		RequiredFields:              []string{"Sink.Name", "Scalars.FInt32", "Oneofs.ChA", "WithOneof.VarS", "Mid.Name", "Nesting.PtrMap.Tags", "Interleave.BGroup", "EmbO.EvB"}, // also on oneof branches and element fields
		SensitiveFields:             []string{"Sink.Data", "Leaf.Str", "Oneofs.ChJ", "WithOneof.VarM", "Collections.Blobs", "Collections.MapInt", "Nesting.ValList"},
		NameOverrides:               map[string]string{"Naming.Overridden": "renamed", "Leaf.Flag": "flag_x"},
		UseStateForUnknownByDefault: true,
		PlanModifiers: map[string][]string{
			"Sink.Name":        {"github.com/hashicorp/terraform-plugin-framework/tfsdk.RequiresReplace()", "github.com/hashicorp/terraform-plugin-framework/tfsdk.UseStateForUnknown()"},
			"Leaf.Num":         {"github.com/hashicorp/terraform-plugin-framework/tfsdk.UseStateForUnknown()"},
			"Sink.Names":       {"github.com/hashicorp/terraform-plugin-framework/tfsdk.UseStateForUnknown()"},
			"Collections.Ints": {"github.com/hashicorp/terraform-plugin-framework/tfsdk.UseStateForUnknown()"},
			"Sink.Index":       {"github.com/hashicorp/terraform-plugin-framework/tfsdk.UseStateForUnknown()"},
		},
		Validators: map[string][]string{
			"Sink.Name":     {"UseSimValidator()"},
			"Scalars.FEnum": {"UseSimValidator()", "UseSimValidator()"},
		},
		// schema type overrides whose Go value type differs from the stock one (int32 instead of int64)
		SchemaTypes: map[string]SchemaType{
			"Oneofs.ChB":      SimInt32Override,
			"Scalars.FSint32": SimInt32Override,
			"Leaf.Num":        SimInt32Override, // Message.Field form: every occurrence of Leaf
		},
		InjectedFields: map[string][]Injected{
			"Sink": {
				{Name: "id", Type: "github.com/hashicorp/terraform-plugin-framework/types.StringType", Computed: true},
				{Name: "extra", Type: "github.com/hashicorp/terraform-plugin-framework/types.Int64Type", Optional: true},
			},
			"Scalars": {{Name: "id", Type: "github.com/hashicorp/terraform-plugin-framework/types.StringType", Computed: true}},
		},
	}
	return p
}

// Roots returns the configured root type names.
func (p *Program) Roots() []string { return append([]string{}, p.Config.Types...) }
