package spec

import (
	"bytes"
	"compress/gzip"
	"fmt"
	"io"

	"github.com/gogo/protobuf/gogoproto"
	"github.com/gogo/protobuf/proto"
	"github.com/gogo/protobuf/protoc-gen-gogo/descriptor"
	plugin "github.com/gogo/protobuf/protoc-gen-gogo/plugin"
	_ "github.com/gogo/protobuf/types" // registers timestamp.proto / duration.proto descriptors
)

const (
	gogoImport      = "gogoproto/gogo.proto"
	descImport      = "google/protobuf/descriptor.proto"
	timestampImport = "google/protobuf/timestamp.proto"
	durationImport  = "google/protobuf/duration.proto"
)

func registered(regName, as string, deps ...string) (*descriptor.FileDescriptorProto, error) {
	gz := proto.FileDescriptor(regName)
	if gz == nil {
		return nil, fmt.Errorf("descriptor %q not registered", regName)
	}
	zr, err := gzip.NewReader(bytes.NewReader(gz))
	if err != nil {
		return nil, err
	}
	raw, err := io.ReadAll(zr)
	if err != nil {
		return nil, err
	}
	fd := &descriptor.FileDescriptorProto{}
	if err := proto.Unmarshal(raw, fd); err != nil {
		return nil, err
	}
	fd.Name = proto.String(as)
	fd.Dependency = deps
	fd.SourceCodeInfo = nil
	if fd.Options == nil {
		fd.Options = &descriptor.FileOptions{}
	}
	switch as {
	case timestampImport, durationImport:
		fd.Options.GoPackage = proto.String("github.com/gogo/protobuf/types")
	case gogoImport:
		fd.Options.GoPackage = proto.String("github.com/gogo/protobuf/gogoproto")
	case descImport:
		fd.Options.GoPackage = proto.String("github.com/gogo/protobuf/protoc-gen-gogo/descriptor")
	}
	return fd, nil
}

var typeByKind = map[string]descriptor.FieldDescriptorProto_Type{
	KDouble: descriptor.FieldDescriptorProto_TYPE_DOUBLE, KFloat: descriptor.FieldDescriptorProto_TYPE_FLOAT,
	KInt32: descriptor.FieldDescriptorProto_TYPE_INT32, KInt64: descriptor.FieldDescriptorProto_TYPE_INT64,
	KUint32: descriptor.FieldDescriptorProto_TYPE_UINT32, KUint64: descriptor.FieldDescriptorProto_TYPE_UINT64,
	KSint32: descriptor.FieldDescriptorProto_TYPE_SINT32, KSint64: descriptor.FieldDescriptorProto_TYPE_SINT64,
	KFixed32: descriptor.FieldDescriptorProto_TYPE_FIXED32, KFixed64: descriptor.FieldDescriptorProto_TYPE_FIXED64,
	KSfixed32: descriptor.FieldDescriptorProto_TYPE_SFIXED32, KSfixed64: descriptor.FieldDescriptorProto_TYPE_SFIXED64,
	KBool: descriptor.FieldDescriptorProto_TYPE_BOOL, KString: descriptor.FieldDescriptorProto_TYPE_STRING,
	KBytes: descriptor.FieldDescriptorProto_TYPE_BYTES, KEnum: descriptor.FieldDescriptorProto_TYPE_ENUM,
	KMessage: descriptor.FieldDescriptorProto_TYPE_MESSAGE, KTime: descriptor.FieldDescriptorProto_TYPE_MESSAGE,
	KDuration: descriptor.FieldDescriptorProto_TYPE_MESSAGE,
}

func setOpt(o *descriptor.FieldOptions, ext *proto.ExtensionDesc, v interface{}) {
	if err := proto.SetExtension(o, ext, v); err != nil {
		panic(err)
	}
}

// elemType fills type / type_name of a (value) field descriptor.
func (p *Program) elemType(f *Field, fd *descriptor.FieldDescriptorProto) {
	t := typeByKind[f.Kind]
	fd.Type = &t
	switch f.Kind {
	case KEnum, KMessage:
		if IsForeignRef(f.Ref) {
			fd.TypeName = proto.String("." + f.Ref)
		} else {
			fd.TypeName = proto.String("." + p.Package + "." + f.Ref)
		}
	case KTime:
		fd.TypeName = proto.String(".google.protobuf.Timestamp")
	case KDuration:
		fd.TypeName = proto.String(".google.protobuf.Duration")
	}
}

// fieldOptions sets the gogoproto options a field of D needs.
func (p *Program) fieldOptions(f *Field) *descriptor.FieldOptions {
	o := &descriptor.FieldOptions{}
	any := false
	b := func(v bool) *bool { return &v }
	if f.Kind == KTime && !f.Raw {
		setOpt(o, gogoproto.E_Stdtime, b(true))
		any = true
	}
	if f.Kind == KDuration && !f.Raw {
		setOpt(o, gogoproto.E_Stdduration, b(true))
		any = true
	}
	if f.Kind == KMessage || f.Kind == KTime || f.Kind == KDuration {
		if !f.Nullable {
			setOpt(o, gogoproto.E_Nullable, b(false))
			any = true
		}
	}
	if f.Embed {
		setOpt(o, gogoproto.E_Embed, b(true))
		any = true
	}
	if f.Cast != "" {
		s := f.Cast
		setOpt(o, gogoproto.E_Casttype, &s)
		any = true
	}
	if f.JSON != "" || f.Embed {
		s := f.JSON
		setOpt(o, gogoproto.E_Jsontag, &s)
		any = true
	}
	if !any {
		return nil
	}
	return o
}

// FileDescriptor builds the FileDescriptorProto of the program's own file.
func (p *Program) FileDescriptor() *descriptor.FileDescriptorProto {
	fd := &descriptor.FileDescriptorProto{
		Name:       proto.String(p.File),
		Package:    proto.String(p.Package),
		Syntax:     proto.String("proto3"),
		Dependency: []string{gogoImport},
		Options:    &descriptor.FileOptions{GoPackage: proto.String(p.Package)},
	}
	f := false
	for _, e := range []*proto.ExtensionDesc{gogoproto.E_GoprotoGettersAll, gogoproto.E_GoprotoUnrecognizedAll,
		gogoproto.E_GoprotoUnkeyedAll, gogoproto.E_GoprotoSizecacheAll} {
		if err := proto.SetExtension(fd.Options, e, &f); err != nil {
			panic(err)
		}
	}
	usesTS, usesDur := false, false
	for _, e := range p.Enums {
		ed := &descriptor.EnumDescriptorProto{Name: proto.String(e.Name)}
		for i, v := range e.Values {
			ed.Value = append(ed.Value, &descriptor.EnumValueDescriptorProto{Name: proto.String(v), Number: proto.Int32(int32(i))})
		}
		fd.EnumType = append(fd.EnumType, ed)
	}
	for _, m := range p.Messages {
		md := &descriptor.DescriptorProto{Name: proto.String(m.Name)}
		for _, o := range m.Oneofs {
			md.OneofDecl = append(md.OneofDecl, &descriptor.OneofDescriptorProto{Name: proto.String(o)})
		}
		for i := range m.Fields {
			f := &m.Fields[i]
			usesTS = usesTS || f.Kind == KTime
			usesDur = usesDur || f.Kind == KDuration
			fdp := &descriptor.FieldDescriptorProto{
				Name:     proto.String(f.Name),
				Number:   proto.Int32(f.Num),
				JsonName: proto.String(f.Name),
			}
			lbl := descriptor.FieldDescriptorProto_LABEL_OPTIONAL
			switch f.Card {
			case CardList:
				lbl = descriptor.FieldDescriptorProto_LABEL_REPEATED
				p.elemType(f, fdp)
			case CardMap:
				lbl = descriptor.FieldDescriptorProto_LABEL_REPEATED
				entry := CamelCase(f.Name) + "Entry"
				kt := typeByKind[KString]
				if f.MapKey != "" {
					kt = typeByKind[f.MapKey]
				}
				opt := descriptor.FieldDescriptorProto_LABEL_OPTIONAL
				val := &descriptor.FieldDescriptorProto{Name: proto.String("value"), Number: proto.Int32(2), Label: &opt, JsonName: proto.String("value")}
				p.elemType(f, val)
				md.NestedType = append(md.NestedType, &descriptor.DescriptorProto{
					Name: proto.String(entry),
					Field: []*descriptor.FieldDescriptorProto{
						{Name: proto.String("key"), Number: proto.Int32(1), Label: &opt, Type: &kt, JsonName: proto.String("key")},
						val,
					},
					Options: &descriptor.MessageOptions{MapEntry: proto.Bool(true)},
				})
				mt := descriptor.FieldDescriptorProto_TYPE_MESSAGE
				fdp.Type = &mt
				fdp.TypeName = proto.String("." + p.Package + "." + m.Name + "." + entry)
			default:
				p.elemType(f, fdp)
			}
			fdp.Label = &lbl
			fdp.Options = p.fieldOptions(f)
			if f.Oneof != "" {
				for oi, o := range m.Oneofs {
					if o == f.Oneof {
						fdp.OneofIndex = proto.Int32(int32(oi))
					}
				}
			}
			md.Field = append(md.Field, fdp)
		}
		fd.MessageType = append(fd.MessageType, md)
	}
	if usesTS {
		fd.Dependency = append(fd.Dependency, timestampImport)
	}
	if usesDur {
		fd.Dependency = append(fd.Dependency, durationImport)
	}
	for _, ff := range p.Foreign {
		fd.Dependency = append(fd.Dependency, ff.File)
	}
	fd.Dependency = append(fd.Dependency, p.ExtraDeps...)
	// source info the way protoc supplies it: leading comments for messages ([4, i]) and fields ([4, i, 2, j])
	sci := &descriptor.SourceCodeInfo{}
	for mi, m := range p.Messages {
		sci.Location = append(sci.Location, &descriptor.SourceCodeInfo_Location{
			Path: []int32{4, int32(mi)}, Span: []int32{int32(10 * mi), 0, int32(10*mi + 9), 1},
			LeadingComments: proto.String(" " + m.Name + " is a message of the program.\n It has " + fmt.Sprint(len(m.Fields)) + " fields.\n"),
		})
		for fi, f := range m.Fields {
			c := " " + f.Name + " holds a " + f.Kind + ".\n"
			switch f.Num % 4 { // by field number: stable when fields are inserted or reordered
			case 1:
				c = " " + f.Name + " is documented\n   over several indented lines\n\n with a blank one.\n"
			case 2:
				c = " " + f.Name + " uses CRLF\r\n line ends and \"quotes\" and a \\ backslash.\r\n"
			case 3:
				continue // no comment
			}
			sci.Location = append(sci.Location, &descriptor.SourceCodeInfo_Location{
				Path: []int32{4, int32(mi), 2, int32(fi)}, Span: []int32{int32(10*mi + fi), 2, 40},
				LeadingComments: proto.String(c),
			})
		}
	}
	fd.SourceCodeInfo = sci
	return fd
}

// Request builds the CodeGeneratorRequest protoc would send for this program with the given
// parameter string.
func (p *Program) Request(param string) (*plugin.CodeGeneratorRequest, error) {
	desc, err := registered("descriptor.proto", descImport)
	if err != nil {
		return nil, err
	}
	gogo, err := registered("gogo.proto", gogoImport, descImport)
	if err != nil {
		return nil, err
	}
	own := p.FileDescriptor()
	files := []*descriptor.FileDescriptorProto{desc, gogo}
	foreign := map[string]bool{}
	var foreignFiles []*descriptor.FileDescriptorProto
	deps := append([]string{}, own.Dependency...)
	for _, ff := range p.Foreign {
		foreign[ff.File] = true
		q := &Program{File: ff.File, Package: ff.ProtoPackage, Messages: ff.Messages}
		fd := q.FileDescriptor()
		fd.Options.GoPackage = proto.String(ff.GoPackage)
		foreignFiles = append(foreignFiles, fd)
		deps = append(deps, fd.Dependency...)
	}
	seenDep := map[string]bool{}
	for _, d := range deps {
		if foreign[d] || seenDep[d] {
			continue
		}
		seenDep[d] = true
		switch d {
		case timestampImport:
			ts, err := registered("google/protobuf/timestamp.proto", timestampImport)
			if err != nil {
				return nil, err
			}
			files = append(files, ts)
		case durationImport:
			du, err := registered("google/protobuf/duration.proto", durationImport)
			if err != nil {
				return nil, err
			}
			files = append(files, du)
		case gogoImport:
		default:
			// unreferenced extra dependency: one message, one enum
			files = append(files, &descriptor.FileDescriptorProto{
				Name:    proto.String(d),
				Package: proto.String("extra"),
				Syntax:  proto.String("proto3"),
				Options: &descriptor.FileOptions{GoPackage: proto.String("example.com/extra")},
				MessageType: []*descriptor.DescriptorProto{{Name: proto.String("Unrelated"), Field: []*descriptor.FieldDescriptorProto{
					{Name: proto.String("X"), Number: proto.Int32(1), Label: descriptor.FieldDescriptorProto_LABEL_OPTIONAL.Enum(),
						Type: descriptor.FieldDescriptorProto_TYPE_STRING.Enum(), JsonName: proto.String("X")}}}},
			})
		}
	}
	files = append(files, foreignFiles...)
	files = append(files, own)
	toGen := []string{p.File}
	for _, x := range p.MoreFiles {
		q := &Program{File: x.File, Package: p.Package, Messages: x.Messages}
		fd := q.FileDescriptor()
		files = append(files, fd)
		toGen = append(toGen, x.File)
	}
	req := &plugin.CodeGeneratorRequest{
		FileToGenerate: toGen,
		ProtoFile:      files,
	}
	if param != "" {
		req.Parameter = proto.String(param)
	}
	return req, nil
}

// RequestBytes marshals Request.
func (p *Program) RequestBytes(param string) ([]byte, error) {
	r, err := p.Request(param)
	if err != nil {
		return nil, err
	}
	return proto.Marshal(r)
}
