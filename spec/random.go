package spec

import (
	"fmt"
	"sort"
	"strings"
)

// rnd is a splitmix64 PRNG private to the spec generator.
type rnd struct{ s uint64 }

func (r *rnd) u64() uint64 {
	r.s += 0x9e3779b97f4a7c15
	x := r.s
	x = (x ^ (x >> 30)) * 0xbf58476d1ce4e5b9
	x = (x ^ (x >> 27)) * 0x94d049bb133111eb
	return x ^ (x >> 31)
}
func (r *rnd) n(n int) int {
	if n <= 0 {
		return 0
	}
	return int(r.u64() % uint64(n))
}
func (r *rnd) p(num, den int) bool { return r.n(den) < num }

func letters(i int) string {
	s := ""
	for {
		s = string(rune('a'+i%26)) + s
		i = i/26 - 1
		if i < 0 {
			return s
		}
	}
}

// RandomOpts steers RandomProgram.
type RandomOpts struct {
	// Conv restricts the program to D_conv: only shapes whose generated code is known to compile
	// and which the converter harness can drive (no custom types, lossless time types).
	Conv bool
}

// RandomProgram draws a program of D from a seed. Message i only references messages j < i, so the
// message graph is acyclic by construction. All field names are unique across the file, so flattening
// embedded messages can never clash.
func RandomProgram(seed uint64, o RandomOpts) *Program {
	r := &rnd{s: seed}
	p := &Program{File: "p.proto", Package: "p"}
	p.Enums = []Enum{{Name: "Mode", Values: []string{"MODE_UNKNOWN", "MODE_ON", "MODE_OFF"}}}
	if r.p(1, 2) {
		p.Enums = append(p.Enums, Enum{Name: "Power", Values: []string{"OFF", "ON", "STANDBY"}})
	}
	if r.p(1, 2) {
		p.Enums = append(p.Enums, Enum{Name: "Color", Values: []string{"COLOR_NONE", "COLOR_RED", "COLOR_BLUE", "COLOR_GREEN"}})
	}
	nameN, jsonN, oneofN := 0, 0, 0
	var allOneofs []string
	oneofTaken := map[string]bool{}
	// a shuffled pool of suffixes: alphabetical order (which `sort` follows) is unrelated to declaration
	// order, so the members of different oneof groups and plain fields interleave
	pool := make([]int, 200)
	for i := range pool {
		pool[i] = i + 1
	}
	for i := len(pool) - 1; i > 0; i-- {
		j := r.n(i + 1)
		pool[i], pool[j] = pool[j], pool[i]
	}
	// names that coincide with names the generated code uses internally; each at most once per file
	reserved := []string{"value", "key", "active", "elems", "attrs", "unknown", "null", "attr_types", "elem_type"}
	fieldName := func() string {
		if len(reserved) > 0 && r.p(1, 10) {
			i := r.n(len(reserved))
			n := reserved[i]
			reserved = append(reserved[:i], reserved[i+1:]...)
			return n
		}
		nameN++
		l := letters(pool[(nameN-1)%len(pool)] + 200*((nameN-1)/len(pool)))
		switch r.n(5) {
		case 0:
			return "f_" + l // lower_snake
		case 1:
			return "F" + l + "X" + l // two UpperCamel words
		default:
			return "F" + l
		}
	}
	scalarKinds := ScalarKinds
	hasEmpty := r.p(1, 2)
	if hasEmpty {
		p.Messages = append(p.Messages, Message{Name: "Void"})
	}
	nMsgs := 3 + r.n(5)
	nRoots := 2 + r.n(2)
	depth := map[string]int{"Void": 0}
	// a message with a oneof can be embedded by value only (a oneof member inside a nullable embedded
	// message does not compile at the pinned commit)
	embeddable := func(m *Message, nullable bool) bool {
		if len(m.Fields) == 0 || (len(m.Oneofs) > 0 && nullable) {
			return false
		}
		return true
	}
	for mi := 0; mi < nMsgs+nRoots; mi++ {
		isRoot := mi >= nMsgs
		name := fmt.Sprintf("Msg%s", letters(mi))
		if isRoot {
			name = fmt.Sprintf("Root%s", letters(mi-nMsgs))
		}
		// names that extend the name of an earlier type (prefix relations between type names)
		if len(p.Messages) > 0 && r.p(1, 4) {
			prev := p.Messages[r.n(len(p.Messages))].Name
			cand := prev + []string{"V2", "Ext", "Two"}[r.n(3)]
			if p.Msg(cand) == nil && prev != "Void" {
				name = cand
			}
		}
		m := Message{Name: name}
		nf := 1 + r.n(7)
		if isRoot {
			nf = 3 + r.n(6)
		}
		// candidates for message references
		var refs []string
		for _, e := range p.Messages {
			if depth[e.Name] < 3 {
				refs = append(refs, e.Name)
			}
		}
		maxd := 0
		embedded := map[string]bool{}
		num := int32(0)
		nextNum := func() int32 {
			num += int32(1 + r.n(3))
			return num
		}
		addOneof := func() {
			g := "Pick" + letters(len(m.Oneofs))
			if r.p(1, 3) {
				g = "pick_" + letters(nameN+1)
				nameN++
			}
			// names in substring relation with a oneof declared elsewhere in the file (a message that embeds
			// the other one sees both)
			if len(allOneofs) > 0 && r.p(1, 4) {
				prev := allOneofs[r.n(len(allOneofs))]
				cand := "My" + prev
				if strings.HasPrefix(prev, "pick_") {
					cand = prev + "_more"
				}
				if !oneofTaken[cand] {
					g = cand
				}
			}
			for oneofTaken[g] && strings.HasPrefix(g, "Pick") {
				oneofN++
				g = "Pick" + letters(len(m.Oneofs)) + letters(oneofN)
			}
			oneofTaken[g] = true
			allOneofs = append(allOneofs, g)
			// sometimes a second group of the same message, declared BEFORE this one, whose name ends in this
			// one's name (and one declared after it that starts with it)
			if pre := "Pre" + g; r.p(1, 6) && !strings.Contains(g, "_") && !oneofTaken[pre] {
				oneofTaken[pre] = true
				allOneofs = append(allOneofs, pre)
				m.Oneofs = append(m.Oneofs, pre)
				for b := 0; b < 2; b++ {
					m.Fields = append(m.Fields, Field{Name: fieldName(), Num: nextNum(), Oneof: pre, Kind: []string{KString, KInt64}[b]})
				}
			}
			m.Oneofs = append(m.Oneofs, g)
			nb := 1 + r.n(3) // a group may have a single branch
			for b := 0; b < nb; b++ {
				f := Field{Name: fieldName(), Num: nextNum(), Oneof: g}
				switch x := r.n(10); {
				case x < 5:
					f.Kind = scalarKinds[r.n(len(scalarKinds))]
				case x < 6:
					f.Kind, f.Ref = KEnum, p.Enums[r.n(len(p.Enums))].Name
				case x < 9 && len(refs) > 0:
					f.Kind, f.Ref, f.Nullable = KMessage, refs[r.n(len(refs))], true
					if d := depth[f.Ref] + 1; d > maxd {
						maxd = d
					}
				default:
					f.Kind = KString
				}
				m.Fields = append(m.Fields, f)
			}
		}
		for fi := 0; fi < nf; fi++ {
			f := Field{Name: fieldName(), Num: nextNum()}
			x := r.n(100)
			switch {
			case x < 45:
				f.Kind = scalarKinds[r.n(len(scalarKinds))]
				if r.p(1, 8) && (f.Kind == KString || f.Kind == KInt32) {
					f.Cast = map[string]string{KString: "MyString", KInt32: "MyInt"}[f.Kind]
				}
			case x < 52:
				f.Kind, f.Ref = KEnum, p.Enums[r.n(len(p.Enums))].Name
			case x < 60:
				f.Kind, f.Nullable = KTime, r.p(1, 2)
			case x < 66:
				f.Kind, f.Nullable = KDuration, r.p(1, 2)
			case x < 70:
				f.Kind, f.Cast = KInt64, DurationCastName
			default:
				if len(refs) == 0 {
					f.Kind = KString
					break
				}
				f.Kind, f.Ref, f.Nullable = KMessage, refs[r.n(len(refs))], r.p(2, 3)
				if d := depth[f.Ref] + 1; d > maxd {
					maxd = d
				}
			}
			// cardinality
			switch c := r.n(10); {
			case c < 6:
			case c < 8:
				f.Card = CardList
			default:
				f.Card = CardMap
			}
			// D_conv exclusions (shapes whose generated code does not compile at the pinned commit are
			// a C01 matter, outside this technique)
			if f.Card == CardMap && f.Kind == KBytes {
				f.Card = CardList
			}
			if f.Card != CardOne && f.Kind == KMessage && len(p.Msg(f.Ref).Fields) == 0 {
				f.Card = CardOne
			}
			if f.Card == CardMap && f.Cast != "" && f.Cast != DurationCastName {
				f.Cast = "" // casttype on a map field casts the map type itself
			}
			if f.Card == CardMap && f.Cast != "" {
				f.Cast = ""
				f.Kind = KInt64
			}
			// embedding
			if f.Kind == KMessage && f.Card == CardOne && !embedded[f.Ref] && embeddable(p.Msg(f.Ref), f.Nullable) && r.p(1, 4) {
				ok := true
				// an embedded message must not itself embed (keeps promoted names simple) and must be
				// embedded at most once per parent
				for _, ef := range p.Msg(f.Ref).Fields {
					// embedding a message that embeds is kept to by-value chains
					if ef.Embed && (ef.Nullable || f.Nullable) {
						ok = false
					}
				}
				if ok {
					f.Embed = true
					f.Name = f.Ref
					embedded[f.Ref] = true
				}
			}
			if f.JSON == "" && !f.Embed && r.p(1, 10) {
				jsonN++
				f.JSON = "j_" + letters(nameN) + letters(jsonN) // unique whatever the field is called
				if r.p(1, 2) {
					f.JSON += ",omitempty"
				}
			}
			m.Fields = append(m.Fields, f)
			if r.p(1, 12) && len(m.Oneofs) < 2 {
				addOneof()
			}
		}
		depth[name] = maxd
		p.Messages = append(p.Messages, m)
		if isRoot {
			p.Config.Types = append(p.Config.Types, name)
		}
	}
	// configuration
	c := &p.Config
	c.TimeType, c.DurationType, c.DurationCustomType = SimTimeType, SimDurationType, DurationCastName
	c.Sort = r.p(1, 2)
	c.UseStateForUnknownByDefault = r.p(1, 2)
	type fref struct {
		m *Message
		f *Field
	}
	var all []fref
	for i := range p.Messages {
		for j := range p.Messages[i].Fields {
			all = append(all, fref{&p.Messages[i], &p.Messages[i].Fields[j]})
		}
	}
	pickSome := func(k int, ok func(fref) bool) []string {
		var out []string
		seen := map[string]bool{}
		for i := 0; i < k*4 && len(out) < k && len(all) > 0; i++ {
			x := all[r.n(len(all))]
			key := x.m.Name + "." + x.f.Name
			if seen[key] || x.f.Embed || !ok(x) {
				continue
			}
			seen[key] = true
			out = append(out, key)
		}
		sort.Strings(out)
		return out
	}
	any := func(fref) bool { return true }
	excluded := map[string]int{}
	c.ExcludeFields = pickSome(1+r.n(2), func(x fref) bool {
		// never empty a message by exclusion; a oneof member only when its group keeps >= 2 members
		if len(x.m.Fields)-excluded[x.m.Name] < 3 {
			return false
		}
		if x.f.Oneof != "" {
			members := 0
			for _, f := range x.m.Fields {
				if f.Oneof == x.f.Oneof {
					members++
				}
			}
			if members < 3 || excluded["oneof:"+x.m.Name+"."+x.f.Oneof] > 0 {
				return false
			}
			excluded["oneof:"+x.m.Name+"."+x.f.Oneof]++
		}
		excluded[x.m.Name]++
		return true
	})
	c.ComputedFields = pickSome(2+r.n(3), any)
	c.RequiredFields = pickSome(2, any)
	c.SensitiveFields = pickSome(2, any)
	c.NameOverrides = map[string]string{}
	for i, k := range pickSome(2, func(x fref) bool { return true }) {
		c.NameOverrides[k] = fmt.Sprintf("ov_%s", letters(i))
	}
	if len(c.Types) > 0 {
		c.InjectedFields = map[string][]Injected{c.Types[0]: {{Name: "id", Type: "github.com/hashicorp/terraform-plugin-framework/types.StringType", Computed: true}}}
	}
	// a nested message that is a selected type as well
	if r.p(1, 2) {
		for _, m := range p.Messages {
			if len(m.Fields) > 0 && !strings.HasPrefix(m.Name, "Root") && r.p(1, 3) {
				sel := false
				for _, t := range c.Types {
					sel = sel || t == m.Name
				}
				if !sel {
					c.Types = append(c.Types, m.Name)
					break
				}
			}
		}
	}
	// options keyed by full path (one occurrence), flags on oneof members, int32-valued schema type overrides
	refs := p.FieldRefs()
	var deepRefs, int32Refs []FieldRef
	for _, fr := range refs {
		if strings.Count(fr.Path, ".") >= 2 && !fr.UnderEmbed {
			deepRefs = append(deepRefs, fr)
		}
		if (fr.F.Kind == KInt32 || fr.F.Kind == KSint32 || fr.F.Kind == KSfixed32) && fr.F.Cast == "" && fr.F.Card == CardOne {
			int32Refs = append(int32Refs, fr)
		}
	}
	if len(deepRefs) > 0 {
		x := deepRefs[r.n(len(deepRefs))]
		switch r.n(4) {
		case 0:
			if x.F.Oneof == "" && len(x.Msg.Fields)-excluded[x.Msg.Name] >= 3 {
				c.ExcludeFields = append(c.ExcludeFields, x.Path)
			}
		case 1:
			c.NameOverrides[x.Path] = "ov_path"
		case 2:
			c.ComputedFields = append(c.ComputedFields, x.Path)
		default:
			c.RequiredFields = append(c.RequiredFields, x.Path)
		}
	}
	for _, fr := range refs {
		if fr.F.Oneof != "" && r.p(1, 6) {
			switch r.n(3) {
			case 0:
				c.ComputedFields = append(c.ComputedFields, fr.TypeKey)
			case 1:
				c.RequiredFields = append(c.RequiredFields, fr.TypeKey)
			default:
				c.SensitiveFields = append(c.SensitiveFields, fr.TypeKey)
			}
		}
	}
	if len(int32Refs) > 0 && r.p(2, 3) {
		c.SchemaTypes = map[string]SchemaType{}
		for i := 0; i < 2; i++ {
			x := int32Refs[r.n(len(int32Refs))]
			if r.p(1, 2) && !x.UnderEmbed {
				c.SchemaTypes[x.Path] = SimInt32Override
			} else {
				c.SchemaTypes[x.TypeKey] = SimInt32Override
			}
		}
	}
	if r.p(1, 3) {
		tt, dt := *SimTimeType, *SimDurationType
		tt.TypeConstructor, dt.TypeConstructor = "UseSimTime()", "UseSimDuration()"
		c.TimeType, c.DurationType = &tt, &dt
	}
	return p
}

// FieldRef is one reachable field occurrence with both of its option keys.
type FieldRef struct {
	Path, TypeKey string
	Msg           *Message
	F             *Field
	UnderEmbed    bool
}

// FieldRefs lists every field occurrence reachable from the selected types (unexcluded view).
func (p *Program) FieldRefs() []FieldRef {
	var out []FieldRef
	seen := map[string]bool{}
	var walk func(n *Node)
	walk = func(n *Node) {
		for _, e := range n.Entries {
			if e.Placeholder {
				continue
			}
			if !seen[e.Path+"|"+e.TypeKey] {
				seen[e.Path+"|"+e.TypeKey] = true
				out = append(out, FieldRef{Path: e.Path, TypeKey: e.TypeKey, Msg: e.Decl, F: e.F, UnderEmbed: e.UnderEmbed})
			}
			if e.Child != nil {
				walk(e.Child)
			}
		}
	}
	cfg := &Config{}
	for _, r := range p.Config.Types {
		if p.Msg(r) != nil {
			walk(p.View(r, cfg))
		}
	}
	return out
}

// FieldKeys lists, for every field reachable from the selected roots, its two option keys: the full
// path (Root.Field.Sub, README form) and Message.Field.
func (p *Program) FieldKeys() (paths, typeKeys []string) {
	seenP, seenT := map[string]bool{}, map[string]bool{}
	cfg := &Config{}
	var walk func(n *Node)
	walk = func(n *Node) {
		for _, e := range n.Entries {
			if e.Placeholder {
				continue
			}
			if !seenP[e.Path] {
				seenP[e.Path] = true
				paths = append(paths, e.Path)
			}
			if !seenT[e.TypeKey] {
				seenT[e.TypeKey] = true
				typeKeys = append(typeKeys, e.TypeKey)
			}
			if e.Child != nil {
				walk(e.Child)
			}
		}
	}
	for _, r := range p.Config.Types {
		if p.Msg(r) != nil {
			walk(p.View(r, cfg))
		}
	}
	sort.Strings(paths)
	sort.Strings(typeKeys)
	return
}

// RandomConfig draws a configuration for program p that exercises every option: both key forms, keys
// aimed at the same field through both forms, overlapping / partially matching map keys, option values
// that coincide. It is meant for the generator simulator (the output need not compile).
func RandomConfig(p *Program, seed uint64) Config {
	r := &rnd{s: seed}
	c := Config{}
	// types: all roots, or a non-empty subset
	roots := append([]string{}, p.Config.Types...)
	if r.p(1, 3) && len(roots) > 1 {
		k := 1 + r.n(len(roots)-1)
		for i := len(roots) - 1; i > 0; i-- {
			j := r.n(i + 1)
			roots[i], roots[j] = roots[j], roots[i]
		}
		roots = roots[:k]
		sort.Strings(roots)
	}
	c.Types = roots
	q := &Program{Messages: p.Messages, Enums: p.Enums, Package: p.Package, File: p.File, Config: Config{Types: roots}}
	paths, tkeys := q.FieldKeys()
	pickKeys := func(n int) []string {
		set := map[string]bool{}
		for i := 0; i < n*3 && len(set) < n; i++ {
			if r.p(1, 2) && len(paths) > 0 {
				set[paths[r.n(len(paths))]] = true
			} else if len(tkeys) > 0 {
				set[tkeys[r.n(len(tkeys))]] = true
			}
		}
		out := make([]string, 0, len(set))
		for k := range set {
			out = append(out, k)
		}
		sort.Strings(out)
		return out
	}
	// the same field through both forms
	both := func() (string, string) {
		for i := 0; i < 20 && len(paths) > 0; i++ {
			pk := paths[r.n(len(paths))]
			// Root.F.X  <->  M.X : find the type key with the same last component whose message is F's type
			for _, tk := range tkeys {
				if pk != tk && lastComp(pk) == lastComp(tk) {
					return pk, tk
				}
			}
		}
		return "", ""
	}
	c.ExcludeFields = pickKeys(r.n(3))
	c.ComputedFields = pickKeys(2 + r.n(3))
	c.RequiredFields = pickKeys(2 + r.n(2))
	c.SensitiveFields = pickKeys(2 + r.n(2))
	// a parent path together with a path below it, in every flag list
	var deep []string
	for _, pk := range paths {
		if strings.Count(pk, ".") >= 2 {
			deep = append(deep, pk)
		}
	}
	addPair := func(l []string) []string {
		if len(deep) == 0 {
			return l
		}
		child := deep[r.n(len(deep))]
		parent := child[:strings.LastIndex(child, ".")]
		l = append(l, parent, child)
		sort.Strings(l)
		out := l[:0]
		for i, x := range l {
			if i == 0 || x != l[i-1] {
				out = append(out, x)
			}
		}
		return out
	}
	c.ComputedFields, c.RequiredFields, c.SensitiveFields = addPair(c.ComputedFields), addPair(c.RequiredFields), addPair(c.SensitiveFields)
	// the deepest paths there are, without anything above them
	var deepest []string
	maxDots := 0
	for _, pk := range paths {
		if d := strings.Count(pk, "."); d > maxDots {
			maxDots, deepest = d, nil
		}
		if strings.Count(pk, ".") == maxDots {
			deepest = append(deepest, pk)
		}
	}
	addOrphan := func(l []string) []string {
		if maxDots < 3 || r.p(1, 3) {
			return l
		}
		k := deepest[r.n(len(deepest))]
		for _, x := range l {
			if x == k {
				return l
			}
		}
		l = append(l, k)
		sort.Strings(l)
		return l
	}
	c.ComputedFields, c.RequiredFields, c.SensitiveFields = addOrphan(c.ComputedFields), addOrphan(c.RequiredFields), addOrphan(c.SensitiveFields)
	c.Sort = r.p(1, 2)
	c.UseStateForUnknownByDefault = r.p(1, 2)
	c.TimeType, c.DurationType, c.DurationCustomType = SimTimeType, SimDurationType, DurationCastName
	switch r.n(4) {
	case 0:
		c.TargetPackageName, c.DefaultPackageName = "samepkg", "samepkg"
	case 1:
		c.TargetPackageName, c.DefaultPackageName = "outpkg", "example.com/api/types"
	case 2:
		c.TargetPackageName = "onlytarget"
	case 3:
		c.DefaultPackageName = "types"
	}
	c.NameOverrides = map[string]string{}
	for i, k := range pickKeys(2) {
		c.NameOverrides[k] = "ov_" + letters(i)
	}
	c.Validators, c.PlanModifiers = map[string][]string{}, map[string][]string{}
	for i, k := range pickKeys(2 + r.n(2)) {
		n := 1 + r.n(3)
		for j := 0; j < n; j++ {
			c.Validators[k] = append(c.Validators[k], fmt.Sprintf("UseValidator%s%d()", letters(i), j))
		}
	}
	for i, k := range pickKeys(2 + r.n(2)) {
		n := 1 + r.n(3)
		for j := 0; j < n; j++ {
			c.PlanModifiers[k] = append(c.PlanModifiers[k], fmt.Sprintf("Modifier%s%d()", letters(i), j))
		}
	}
	if pk, tk := both(); pk != "" {
		c.Validators[pk], c.Validators[tk] = []string{"UsePathValidator()"}, []string{"UseTypeValidator()", "UseSimValidator()"}
		c.PlanModifiers[pk], c.PlanModifiers[tk] = []string{"PathModifier()"}, []string{"TypeModifier()"}
		c.NameOverrides[pk], c.NameOverrides[tk] = "name_by_path", "name_by_type"
	}
	c.SchemaTypes = map[string]SchemaType{}
	for i, k := range pickKeys(2 + r.n(3)) {
		st := SchemaType{Type: "SimStrType", ValueType: "SimStrValue", CastToType: "string", CastFromType: "string"}
		// entries of one type with different constructors, or none; sometimes the type of time_type itself
		switch r.n(4) {
		case 0:
			st.TypeConstructor = "UseSimStr" + letters(i) + "()"
		case 1:
			st = *SimTimeType
			st.TypeConstructor = "UseSimTime" + letters(i) + "()"
		case 2:
			st = *SimDurationType
			st.TypeConstructor = "example.com/x/wrappers.UseDuration" + letters(i) + "()"
		}
		c.SchemaTypes[k] = st
	}
	c.CustomTypes, c.Suffixes = map[string]string{}, map[string]string{}
	for i, k := range pickKeys(2 + r.n(2)) {
		switch i % 3 {
		case 0:
			c.CustomTypes[k] = "example.com/x/wrappers.Traits"
			c.Suffixes["Traits"], c.Suffixes["wrappers.Traits"], c.Suffixes["x/wrappers.Traits"] = "AnyTraits", "WrappersTraits", "XWrappersTraits"
		case 1:
			c.CustomTypes[k] = "CustomBool"
			c.Suffixes["CustomBool"] = "BoolSpecial"
		default:
			c.CustomTypes[k] = "example.com/x/wrappers.Labels"
			c.Suffixes["Labels"], c.Suffixes["example.com/x/wrappers.Label"] = "L", "Prefix"
		}
	}
	c.ImportPathOverrides = map[string]string{"example.com/api/types": "example.com/moved/types", "example.com/api": "example.com/moved", "types": "example.com/short/types",
		"example.com/x/wrappers": "example.com/y/wrappers",
		// chains: a value that is the key of another entry
		"example.com/moved/types": "example.com/v2/types", "example.com/v2/types": "example.com/fork/v2/types", "example.com/short/types": "example.com/api/types",
		"samepkg": "example.com/same/pkg", "example.com/same/pkg": "example.com/same2/pkg", "example.com/same2/pkg": "example.com/same3/pkg"}
	c.Suffixes["ByChainA"], c.Suffixes["ByChainB"], c.Suffixes["ByChainC"] = "ByChainB", "ByChainC", "ByChainD"
	c.InjectedFields = map[string][]Injected{}
	for i, root := range roots {
		if i < 2 || r.p(1, 3) {
			c.InjectedFields[root] = []Injected{{Name: "id", Type: "github.com/hashicorp/terraform-plugin-framework/types.StringType", Computed: true}}
			if r.p(1, 2) {
				c.InjectedFields[root] = append(c.InjectedFields[root], Injected{Name: "extra", Type: "github.com/hashicorp/terraform-plugin-framework/types.Int64Type", Optional: true,
					Validators: []string{"UseSimValidator()"}, PlanModifiers: []string{"github.com/hashicorp/terraform-plugin-framework/tfsdk.UseStateForUnknown()"}})
			}
			// any combination of the three flags, none and all included
			if r.p(1, 2) {
				c.InjectedFields[root] = append(c.InjectedFields[root], Injected{Name: "flags_" + letters(i), Type: "github.com/hashicorp/terraform-plugin-framework/types.BoolType",
					Required: r.p(1, 3), Computed: r.p(1, 3), Optional: r.p(1, 3)})
			}
		}
	}
	return c
}

func lastComp(k string) string {
	for i := len(k) - 1; i >= 0; i-- {
		if k[i] == '.' {
			return k[i+1:]
		}
	}
	return k
}
