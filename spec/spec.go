// Package spec defines shape specs: a small, explicit description of a proto3 file in the supported
// fragment D (DESIGN.md §3). From one spec we derive (a) the FileDescriptorProto handed to the plugin
// and to gogo's generator, (b) the logical configuration, (c) the oracle view used by the checks.
// Nothing in here reads /repo.
package spec

import (
	"fmt"
	"sort"
	"strings"
)

// Scalar kinds (proto type names) plus the composite kinds.
const (
	KDouble   = "double"
	KFloat    = "float"
	KInt32    = "int32"
	KInt64    = "int64"
	KUint32   = "uint32"
	KUint64   = "uint64"
	KSint32   = "sint32"
	KSint64   = "sint64"
	KFixed32  = "fixed32"
	KFixed64  = "fixed64"
	KSfixed32 = "sfixed32"
	KSfixed64 = "sfixed64"
	KBool     = "bool"
	KString   = "string"
	KBytes    = "bytes"
	KEnum     = "enum"
	KMessage  = "message"
	KTime     = "time"     // google.protobuf.Timestamp + stdtime
	KDuration = "duration" // google.protobuf.Duration + stdduration
)

// ScalarKinds lists every plain scalar kind.
var ScalarKinds = []string{KDouble, KFloat, KInt32, KInt64, KUint32, KUint64, KSint32, KSint64,
	KFixed32, KFixed64, KSfixed32, KSfixed64, KBool, KString, KBytes}

const (
	CardOne  = ""
	CardList = "list"
	CardMap  = "map"
)

// Program is one proto file to generate plus its logical plugin configuration.
type Program struct {
	File     string    `json:"file"`    // "p.proto"
	Package  string    `json:"package"` // proto package and Go package name, "p"
	Enums    []Enum    `json:"enums"`
	Messages []Message `json:"messages"`
	// MoreFiles are further files to generate in the same invocation (same proto and Go package).
	MoreFiles []ExtraFile `json:"more_files,omitempty"`
	// Unbuildable lists messages of the program that the converter simulator asks the plugin to generate
	// IN FRONT OF the configured types although they cannot be mapped (a map with an integer key): the plugin
	// leaves them out, and whatever it kept from the attempt must not leak into the types that follow. They
	// are not roots of the harness.
	Unbuildable []string `json:"unbuildable,omitempty"`
	// Foreign are dependency files in OTHER proto / Go packages whose messages the program references
	// (Field.Ref = "<proto package>.<Message>"). Generator simulator only: nothing here is compiled, and
	// the oracle view does not descend into them.
	Foreign []ForeignFile `json:"foreign,omitempty"`
	// Extra dependency files whose messages are not referenced (C12 style noise; harmless here).
	ExtraDeps []string `json:"extra_deps,omitempty"`
	Config    Config   `json:"config"`
}

// ExtraFile is one more file of the request that is also generated.
type ExtraFile struct {
	File     string    `json:"file"`
	Messages []Message `json:"messages"`
}

// ForeignFile is a dependency file of another package (not generated).
type ForeignFile struct {
	File         string    `json:"file"`
	ProtoPackage string    `json:"proto_package"`
	GoPackage    string    `json:"go_package"`
	Messages     []Message `json:"messages"`
}

// IsForeignRef reports a reference into another proto package.
func IsForeignRef(ref string) bool { return strings.Contains(ref, ".") }

type Enum struct {
	Name   string   `json:"name"`
	Values []string `json:"values"` // numbered 0..n-1
}

type Message struct {
	Name   string   `json:"name"`
	Fields []Field  `json:"fields"`
	Oneofs []string `json:"oneofs,omitempty"` // declaration order
}

type Field struct {
	Name     string `json:"name"`
	Num      int32  `json:"num"`
	Kind     string `json:"kind"`
	Ref      string `json:"ref,omitempty"`      // enum or message name
	Card     string `json:"card,omitempty"`     // "", list, map
	Nullable bool   `json:"nullable,omitempty"` // message/time/duration: pointer representation
	Embed    bool   `json:"embed,omitempty"`
	Cast     string `json:"cast,omitempty"`    // gogoproto.casttype (type defined in the struct package)
	JSON     string `json:"json,omitempty"`    // gogoproto.jsontag (first element is the attribute name)
	Oneof    string `json:"oneof,omitempty"`   // oneof group
	MapKey   string `json:"map_key,omitempty"` // default string; anything else is unmappable (C18)
	// RawTS/RawDur: google.protobuf.Timestamp/Duration field WITHOUT stdtime/stdduration (used only by
	// C18's unmappable cases, never compiled).
	Raw bool `json:"raw,omitempty"`
}

// IsMessageLike reports whether the field's element is a user message.
func (f *Field) IsMessage() bool { return f.Kind == KMessage }

// IsTemporal reports time or duration element.
func (f *Field) IsTemporal() bool {
	return f.Kind == KTime || f.Kind == KDuration || f.IsCastDuration()
}

// IsCastDuration: int64 cast to the configured duration custom type.
func (f *Field) IsCastDuration() bool { return f.Kind == KInt64 && f.Cast == DurationCastName }

// DurationCastName is the cast type name used for duration_custom_type in generated programs.
const DurationCastName = "Duration"

func (p *Program) Msg(name string) *Message {
	for i := range p.Messages {
		if p.Messages[i].Name == name {
			return &p.Messages[i]
		}
	}
	return nil
}

func (p *Program) Enum(name string) *Enum {
	for i := range p.Enums {
		if p.Enums[i].Name == name {
			return &p.Enums[i]
		}
	}
	return nil
}

// CastTypes returns castname -> underlying Go type for every cast type used in the program.
func (p *Program) CastTypes() map[string]string {
	r := map[string]string{}
	for _, m := range p.Messages {
		for _, f := range m.Fields {
			if f.Cast != "" {
				r[f.Cast] = GoScalar(f.Kind)
			}
		}
	}
	return r
}

// GoScalar returns the Go type gogo uses for a scalar kind.
func GoScalar(kind string) string {
	switch kind {
	case KDouble:
		return "float64"
	case KFloat:
		return "float32"
	case KInt32, KSint32, KSfixed32:
		return "int32"
	case KInt64, KSint64, KSfixed64:
		return "int64"
	case KUint32, KFixed32:
		return "uint32"
	case KUint64, KFixed64:
		return "uint64"
	case KBool:
		return "bool"
	case KString:
		return "string"
	case KBytes:
		return "[]byte"
	}
	return ""
}

// CamelCase is gogo's generator.CamelCase restricted to the names D allows (UpperCamel words or
// lower_snake): underscores followed by a lower-case letter are dropped and the letter upper-cased.
func CamelCase(s string) string {
	if s == "" {
		return ""
	}
	t := make([]byte, 0, len(s))
	i := 0
	if s[0] == '_' {
		t = append(t, 'X')
		i++
	}
	for ; i < len(s); i++ {
		c := s[i]
		if c == '_' && i+1 < len(s) && isLower(s[i+1]) {
			continue
		}
		if isDigit(c) {
			t = append(t, c)
			continue
		}
		if isLower(c) {
			c ^= ' '
		}
		t = append(t, c)
		for i+1 < len(s) && isLower(s[i+1]) {
			i++
			t = append(t, s[i])
		}
	}
	return string(t)
}

func isLower(c byte) bool { return 'a' <= c && c <= 'z' }
func isDigit(c byte) bool { return '0' <= c && c <= '9' }
func isUpper(c byte) bool { return 'A' <= c && c <= 'Z' }

// SnakeCase for names in D: UpperCamel words `[A-Z][a-z0-9]+` or already lower_snake.
func SnakeCase(s string) string {
	var b strings.Builder
	for i := 0; i < len(s); i++ {
		c := s[i]
		if isUpper(c) {
			if i > 0 && s[i-1] != '_' {
				b.WriteByte('_')
			}
			b.WriteByte(c | ' ')
		} else {
			b.WriteByte(c)
		}
	}
	return b.String()
}

// Validate checks structural well-formedness of the spec (not plugin support).
func (p *Program) Validate() error {
	seenM := map[string]bool{}
	for _, e := range p.Enums {
		if seenM[e.Name] {
			return fmt.Errorf("duplicate type %s", e.Name)
		}
		seenM[e.Name] = true
	}
	for _, m := range p.Messages {
		if seenM[m.Name] {
			return fmt.Errorf("duplicate type %s", m.Name)
		}
		seenM[m.Name] = true
		nums := map[int32]bool{}
		names := map[string]bool{}
		for _, f := range m.Fields {
			if nums[f.Num] || names[f.Name] {
				return fmt.Errorf("%s: duplicate field %s/%d", m.Name, f.Name, f.Num)
			}
			nums[f.Num], names[f.Name] = true, true
			if f.Kind == KMessage && IsForeignRef(f.Ref) {
				continue
			}
			if (f.Kind == KMessage && p.Msg(f.Ref) == nil) || (f.Kind == KEnum && p.Enum(f.Ref) == nil) {
				return fmt.Errorf("%s.%s: unknown ref %q", m.Name, f.Name, f.Ref)
			}
			if f.Oneof != "" {
				ok := false
				for _, o := range m.Oneofs {
					ok = ok || o == f.Oneof
				}
				if !ok {
					return fmt.Errorf("%s.%s: unknown oneof %q", m.Name, f.Name, f.Oneof)
				}
			}
		}
	}
	// acyclic
	state := map[string]int{}
	var visit func(string) error
	visit = func(n string) error {
		switch state[n] {
		case 1:
			return fmt.Errorf("recursive message %s", n)
		case 2:
			return nil
		}
		state[n] = 1
		for _, f := range p.Msg(n).Fields {
			if f.Kind == KMessage && !IsForeignRef(f.Ref) {
				if err := visit(f.Ref); err != nil {
					return err
				}
			}
		}
		state[n] = 2
		return nil
	}
	for _, m := range p.Messages {
		if err := visit(m.Name); err != nil {
			return err
		}
	}
	return nil
}

// Reachable returns the names of the messages reachable from root (root included), through
// non-excluded fields only when honourExclusions is set.
func (p *Program) Reachable(root string) []string {
	seen := map[string]bool{}
	var walk func(string)
	walk = func(n string) {
		if seen[n] {
			return
		}
		seen[n] = true
		for _, f := range p.Msg(n).Fields {
			if f.Kind == KMessage && !IsForeignRef(f.Ref) {
				walk(f.Ref)
			}
		}
	}
	walk(root)
	r := make([]string, 0, len(seen))
	for k := range seen {
		r = append(r, k)
	}
	sort.Strings(r)
	return r
}
