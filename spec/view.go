package spec

import "strings"

// The oracle view: what the documentation says the generated schema / converters look like for a
// program and configuration, written from the README's rules (attribute naming, flattening of
// embedded messages, exclusion keys), never from the generator's sources.

// Via is one step through an embedded field.
type Via struct {
	Go       string // Go field name of the embedded field (= type name of the embedded message)
	Nullable bool
}

// Entry is one Terraform attribute of a (flattened) message occurrence.
type Entry struct {
	Attr        string
	Go          string // Go field name in the declaring struct
	Via         []Via  // embedding chain from the occurrence's struct to the declaring struct
	F           *Field
	Decl        *Message
	Path        string // option / diagnostics path per README: parent path + "." + proto field name
	TypeKey     string // Message.Field
	Child       *Node  // message element (object, list of objects, map of objects)
	Placeholder bool   // the synthetic `active` attribute of an empty message
	UnderEmbed  bool   // reached through an embedded field (diagnostic paths are then only suffix-checked)
}

// Excl is an excluded field: it must be left untouched by the converters.
type Excl struct {
	Go  string
	Via []Via
	F   *Field
}

// Node is one occurrence of a message in the tree below a root type.
type Node struct {
	Msg      *Message
	Path     string
	Entries  []*Entry
	Excluded []Excl
	// Oneofs lists the oneof holders visible in this struct (own and promoted through embedding).
	Oneofs []OneofRef
}

// OneofRef names a oneof holder field.
type OneofRef struct {
	Go   string // holder field name
	Via  []Via
	Decl *Message
	Name string // group name as declared
}

// View builds the oracle view of root under cfg.
func (p *Program) View(root string, cfg *Config) *Node {
	return p.node(p.Msg(root), root, cfg)
}

func inSet(list []string, keys ...string) bool {
	for _, l := range list {
		for _, k := range keys {
			if l == k {
				return true
			}
		}
	}
	return false
}

func (p *Program) node(m *Message, path string, cfg *Config) *Node {
	n := &Node{Msg: m, Path: path}
	p.fill(n, m, path, nil, false, cfg)
	return n
}

// fill appends the entries of message m (declared at option path `path`) to n, reached via `via`.
func (p *Program) fill(n *Node, m *Message, path string, via []Via, underEmbed bool, cfg *Config) {
	if len(m.Fields) == 0 && len(via) == 0 {
		n.Entries = append(n.Entries, &Entry{Attr: "active", Placeholder: true, Decl: m, Path: path + ".active"})
		return
	}
	for _, o := range m.Oneofs {
		n.Oneofs = append(n.Oneofs, OneofRef{Go: CamelCase(o), Via: via, Decl: m, Name: o})
	}
	for i := range m.Fields {
		f := &m.Fields[i]
		fpath := path + "." + f.Name
		tkey := m.Name + "." + f.Name
		if f.Embed {
			// README/plugin rule: options below an embedded field are keyed by the embedding message's name.
			if inSet(cfg.ExcludeFields, tkey) {
				n.Excluded = append(n.Excluded, Excl{Go: f.Ref, Via: via, F: f})
				continue
			}
			v := append(append([]Via{}, via...), Via{Go: f.Ref, Nullable: f.Nullable})
			p.fill(n, p.Msg(f.Ref), m.Name, v, true, cfg)
			continue
		}
		if inSet(cfg.ExcludeFields, fpath, tkey) {
			n.Excluded = append(n.Excluded, Excl{Go: CamelCase(f.Name), Via: via, F: f})
			continue
		}
		e := &Entry{Go: CamelCase(f.Name), Via: via, F: f, Decl: m, Path: fpath, TypeKey: tkey, UnderEmbed: underEmbed}
		switch {
		case cfg.NameOverrides[fpath] != "":
			e.Attr = cfg.NameOverrides[fpath]
		case cfg.NameOverrides[tkey] != "":
			e.Attr = cfg.NameOverrides[tkey]
		case f.JSON != "" && strings.Split(f.JSON, ",")[0] != "-":
			e.Attr = strings.Split(f.JSON, ",")[0]
		default:
			e.Attr = SnakeCase(f.Name)
		}
		if f.Kind == KMessage {
			e.Child = p.node(p.Msg(f.Ref), fpath, cfg)
		}
		n.Entries = append(n.Entries, e)
	}
}

// Entry lookup by attribute name.
func (n *Node) ByAttr(a string) *Entry {
	for _, e := range n.Entries {
		if e.Attr == a {
			return e
		}
	}
	return nil
}
